#![no_main]
//! Coverage-guided workload for the text-level monitors: libFuzzer chooses (language, threshold, text); the oracles of
//! the selected property (env T2N_FUZZ_PROP) judge the execution and abort with a VIOLATION message on failure.
use libfuzzer_sys::fuzz_target;
use std::sync::OnceLock;
use t2n_verif::monitors::{fuzz_oracles, LangSet};

static STATE: OnceLock<(LangSet, String)> = OnceLock::new();

fuzz_target!(|data: &[u8]| {
    let (ls, prop) = STATE.get_or_init(|| (LangSet::new(), std::env::var("T2N_FUZZ_PROP").unwrap_or_else(|_| "ALL".into())));
    if data.len() < 3 {
        return;
    }
    let text = match std::str::from_utf8(&data[2..]) {
        Ok(t) => t,
        Err(_) => return,
    };
    if let Some(msg) = fuzz_oracles::judge(ls, prop, data[0], data[1], text) {
        eprintln!("{}", msg);
        std::process::abort();
    }
});
