//! Uniform, object-safe view of the public API of text2num for one language, plus the
//! observation devices (IdTok, Counted, Observed).  Everything here sits at the client boundary.

use std::cell::RefCell;
use std::sync::atomic::{AtomicUsize, Ordering};
use std::sync::Arc;

use text2num::digit_string::DigitString;
use text2num::error::Error;
use text2num::lang::{Dutch, English, French, German, Italian, MorphologicalMarker, Portuguese, Spanish};
use text2num::verif_hooks::{tokenize, BasicToken};
use text2num::{
    find_numbers, find_numbers_iter, replace_numbers_in_stream, replace_numbers_in_text, text2digits, BasicAnnotate,
    LangInterpreter, Language, Occurence, Replace, Token,
};

pub const LANGS: [&str; 7] = ["en", "fr", "es", "pt", "it", "de", "nl"];

#[derive(Clone, Debug)]
pub struct Occ {
    pub start: usize,
    pub end: usize,
    pub text: String,
    pub value: f64,
    pub is_ordinal: bool,
}

impl PartialEq for Occ {
    fn eq(&self, o: &Occ) -> bool {
        self.start == o.start
            && self.end == o.end
            && self.text == o.text
            && self.value.to_bits() == o.value.to_bits()
            && self.is_ordinal == o.is_ordinal
    }
}

impl Occ {
    pub fn from(o: Occurence) -> Occ {
        Occ { start: o.start, end: o.end, text: o.text, value: o.value, is_ordinal: o.is_ordinal }
    }
    pub fn show(&self) -> String {
        format!("[{}..{} {:?} v={} ord={}]", self.start, self.end, self.text, self.value, self.is_ordinal)
    }
}

pub fn show_occs(v: &[Occ]) -> String {
    v.iter().map(|o| o.show()).collect::<Vec<_>>().join(" ")
}

#[derive(Clone, Copy, Debug, PartialEq, Eq, Hash)]
pub enum ErrK {
    Overlap,
    NaN,
    Incomplete,
    Frozen,
}

pub fn errk(e: &Error) -> ErrK {
    match e {
        Error::Overlap => ErrK::Overlap,
        Error::NaN => ErrK::NaN,
        Error::Incomplete => ErrK::Incomplete,
        Error::Frozen => ErrK::Frozen,
    }
}

/// A plain token of the text pipeline: text + the nan annotation
#[derive(Clone, Debug, PartialEq)]
pub struct PTok {
    pub text: String,
    pub nan: bool,
}

// ---------------------------------------------------------------------------------------------
// IdTok: a token with identity and hints, for stream-level observation
// ---------------------------------------------------------------------------------------------

#[derive(Clone, Debug, PartialEq)]
pub struct IdTok {
    pub id: u64,
    pub text: String,
    pub lower: String,
    /// "this token is unrelated to its predecessor"
    pub sep: bool,
    /// "not a number part"
    pub nan: bool,
    /// ids of the tokens this one replaced (only for tokens built by `Replace::replace`)
    pub replaced: Vec<u64>,
    pub is_replacement: bool,
    /// speech timing in milliseconds (0, 0 = not time-stamped): a time-stamped token is unrelated to its predecessor when
    /// the silence between them exceeds PAUSE_MS, like the ASR example of the crate documentation
    pub start: u64,
    pub end: u64,
}

pub const PAUSE_MS: u64 = 100;

impl IdTok {
    pub fn new(id: u64, text: &str) -> IdTok {
        IdTok { id, text: text.to_string(), lower: text.to_lowercase(), sep: false, nan: false, replaced: vec![], is_replacement: false, start: 0, end: 0 }
    }
    pub fn timed(id: u64, text: &str, start: u64, end: u64) -> IdTok {
        IdTok { start, end, ..IdTok::new(id, text) }
    }
    pub fn show(&self) -> String {
        format!("{}{}{:?}", if self.sep { "^" } else { "" }, if self.nan { "!" } else { "" }, self.text)
    }
}

thread_local! {
    static NT_LOG: std::cell::RefCell<Option<Vec<(u64, u64)>>> = const { std::cell::RefCell::new(None) };
}

/// start recording the (token id, id of the token passed as `previous`) pairs of every `nt_separated` call made on this
/// thread
pub fn nt_log_start() {
    NT_LOG.with(|l| *l.borrow_mut() = Some(Vec::new()));
}

/// stop recording and return the pairs
pub fn nt_log_take() -> Vec<(u64, u64)> {
    NT_LOG.with(|l| l.borrow_mut().take().unwrap_or_default())
}

impl Token for &IdTok {
    fn text(&self) -> &str {
        &self.text
    }
    fn text_lowercase(&self) -> &str {
        &self.lower
    }
    fn nt_separated(&self, previous: &Self) -> bool {
        // observation point: which token the scanner presents as "the previous one" (C15 checks it is the predecessor)
        NT_LOG.with(|l| {
            if let Some(v) = l.borrow_mut().as_mut() {
                v.push((self.id, previous.id));
            }
        });
        self.sep || (self.end > 0 && previous.end > 0 && self.start > previous.end + PAUSE_MS)
    }
    fn not_a_number_part(&self) -> bool {
        self.nan
    }
}

impl Replace for IdTok {
    fn replace<I: Iterator<Item = Self>>(replaced: I, data: String) -> Self {
        let ids: Vec<u64> = replaced.map(|t| t.id).collect();
        IdTok { id: u64::MAX, lower: data.to_lowercase(), text: data, sep: false, nan: false, replaced: ids, is_replacement: true, start: 0, end: 0 }
    }
}

impl BasicAnnotate for IdTok {
    fn text_lowercase(&self) -> &str {
        &self.lower
    }
    fn set_nan(&mut self, val: bool) {
        self.nan = val
    }
}

/// Iterator adapter counting how many items the consumer has pulled.
pub struct Counted<I> {
    inner: I,
    pub pulled: Arc<AtomicUsize>,
}

impl<I: Iterator> Iterator for Counted<I> {
    type Item = I::Item;
    fn next(&mut self) -> Option<I::Item> {
        let r = self.inner.next();
        if r.is_some() {
            self.pulled.fetch_add(1, Ordering::Relaxed);
        }
        r
    }
}

/// What one step of the lazy iterator looked like: the occurrence it returned (None at the end) and the number
/// of tokens pulled from the caller's stream so far.
#[derive(Clone, Debug)]
pub struct IterStep {
    pub occ: Option<Occ>,
    pub pulled_after: usize,
}

// ---------------------------------------------------------------------------------------------
// Observed<L>: forwards every trait method, logs apply() events
// ---------------------------------------------------------------------------------------------

#[derive(Clone, Debug)]
pub struct ApplyEvent {
    pub word: String,
    pub decimal: bool,
    pub before: String,
    pub after: String,
    pub before_len: usize,
    pub after_len: usize,
    pub result: Option<ErrK>,
}

pub struct Observed<'a, L: LangInterpreter> {
    pub inner: &'a L,
    pub log: RefCell<Vec<ApplyEvent>>,
}

impl<'a, L: LangInterpreter> Observed<'a, L> {
    pub fn new(inner: &'a L) -> Self {
        Observed { inner, log: RefCell::new(Vec::new()) }
    }
}

impl<'a, L: LangInterpreter> LangInterpreter for Observed<'a, L> {
    fn apply(&self, num_func: &str, b: &mut DigitString) -> Result<(), Error> {
        let before = b.to_string();
        let before_len = b.len();
        let r = self.inner.apply(num_func, b);
        self.log.borrow_mut().push(ApplyEvent {
            word: num_func.to_string(),
            decimal: false,
            before,
            after: b.to_string(),
            before_len,
            after_len: b.len(),
            result: r.as_ref().err().map(errk),
        });
        r
    }
    fn apply_decimal(&self, decimal_func: &str, b: &mut DigitString) -> Result<(), Error> {
        let before = b.to_string();
        let before_len = b.len();
        let r = self.inner.apply_decimal(decimal_func, b);
        self.log.borrow_mut().push(ApplyEvent {
            word: decimal_func.to_string(),
            decimal: true,
            before,
            after: b.to_string(),
            before_len,
            after_len: b.len(),
            result: r.as_ref().err().map(errk),
        });
        r
    }
    fn get_morph_marker(&self, word: &str) -> MorphologicalMarker {
        self.inner.get_morph_marker(word)
    }
    fn is_decimal_sep(&self, word: &str) -> bool {
        self.inner.is_decimal_sep(word)
    }
    fn format_and_value(&self, b: &DigitString) -> (String, f64) {
        self.inner.format_and_value(b)
    }
    fn format_decimal_and_value(&self, int: &DigitString, dec: &DigitString) -> (String, f64) {
        self.inner.format_decimal_and_value(int, dec)
    }
    fn is_linking(&self, word: &str) -> bool {
        self.inner.is_linking(word)
    }
    fn basic_annotate<T: BasicAnnotate>(&self, tokens: &mut Vec<T>) {
        self.inner.basic_annotate(tokens)
    }
}

// ---------------------------------------------------------------------------------------------
// Api: object-safe facade used by all monitors
// ---------------------------------------------------------------------------------------------

/// Result of the direct trait-method probe on twin builders (C13).
#[derive(Clone, Debug, PartialEq)]
pub struct BuilderProbe {
    pub statuses: Vec<Option<ErrK>>,
    pub rendering: String,
    pub len: usize,
    pub is_ordinal: bool,
    pub flags: u64,
    pub marker: String,
    pub formatted: String,
    pub value_bits: u64,
}

pub trait Api: Send + Sync {
    fn code(&self) -> &'static str;
    fn validate(&self, s: &str) -> Result<String, ErrK>;
    fn replace(&self, s: &str, t: f64) -> String;
    /// tokenise (hook H1) + basic_annotate: the tokens `replace_numbers_in_text` uses
    fn tokens(&self, s: &str) -> Vec<PTok>;
    /// tokenise + annotate + find_numbers
    fn scan_text(&self, s: &str, t: f64) -> (Vec<PTok>, Vec<Occ>);
    /// tokenise, NO annotation, find_numbers
    fn scan_text_plain(&self, s: &str, t: f64) -> (Vec<PTok>, Vec<Occ>);
    fn annotate(&self, toks: &mut Vec<IdTok>);
    fn find(&self, toks: &[IdTok], t: f64) -> Vec<Occ>;
    fn find_iter_steps(&self, toks: &[IdTok], t: f64, extra_calls: usize) -> (usize, Vec<IterStep>);
    fn replace_stream(&self, toks: Vec<IdTok>, t: f64) -> Vec<IdTok>;
    /// lazy search: take at most `k` occurrences, then drop the iterator
    fn find_iter_first(&self, toks: &[IdTok], t: f64, k: usize) -> Vec<Occ>;
    fn apply(&self, w: &str, b: &mut DigitString) -> Result<(), ErrK>;
    fn apply_decimal(&self, w: &str, b: &mut DigitString) -> Result<(), ErrK>;
    fn is_linking(&self, w: &str) -> bool;
    fn is_decimal_sep(&self, w: &str) -> bool;
    fn marker_of(&self, w: &str) -> String;
    fn format(&self, b: &DigitString) -> (String, f64);
    fn format_decimal(&self, i: &DigitString, d: &DigitString) -> (String, f64);
    /// does `w` start a number on a fresh builder?
    fn is_number_word(&self, w: &str) -> bool {
        let mut b = DigitString::new();
        self.apply(&w.to_lowercase(), &mut b).is_ok()
    }
    /// run the scanner under an Observed wrapper and return the apply() event log
    fn scan_observed(&self, s: &str, t: f64) -> (Vec<Occ>, Vec<ApplyEvent>);
    fn validate_observed(&self, s: &str) -> (Result<String, ErrK>, Vec<ApplyEvent>);
    /// direct trait method probe
    fn probe_builder(&self, words: &[&str], decimal_from: usize) -> BuilderProbe;
}

pub struct Wrap<L: LangInterpreter> {
    pub code: &'static str,
    pub lang: L,
}

// ForceShare: the harness must still *build and run* if an interpreter gains interior mutability, so that the
// race detectors see the real race instead of the compiler hiding the experiment (DESIGN.md C14).  Whether the
// interpreters really are `Send + Sync` is decided by the separate `sendsync` build probe.  Outside the C14
// thread workload every worker thread builds its own interpreters, so nothing is shared through this impl.
unsafe impl<L: LangInterpreter> Send for Wrap<L> {}
unsafe impl<L: LangInterpreter> Sync for Wrap<L> {}

fn marker_string(m: &MorphologicalMarker) -> String {
    match m {
        MorphologicalMarker::Ordinal(s) => format!("O:{}", s),
        MorphologicalMarker::Fraction(s) => format!("F:{}", s),
        MorphologicalMarker::None => "-".to_string(),
    }
}

impl<L: LangInterpreter> Api for Wrap<L> {
    fn code(&self) -> &'static str {
        self.code
    }
    fn validate(&self, s: &str) -> Result<String, ErrK> {
        text2digits(s, &self.lang).map_err(|e| errk(&e))
    }
    fn replace(&self, s: &str, t: f64) -> String {
        replace_numbers_in_text(s, &self.lang, t)
    }
    fn tokens(&self, s: &str) -> Vec<PTok> {
        let mut toks: Vec<BasicToken> = tokenize(s).collect();
        self.lang.basic_annotate(&mut toks);
        toks.iter().map(|t| PTok { text: t.text.clone(), nan: t.nan }).collect()
    }
    fn scan_text(&self, s: &str, t: f64) -> (Vec<PTok>, Vec<Occ>) {
        let mut toks: Vec<BasicToken> = tokenize(s).collect();
        self.lang.basic_annotate(&mut toks);
        let occs = find_numbers(toks.iter(), &self.lang, t).into_iter().map(Occ::from).collect();
        (toks.iter().map(|t| PTok { text: t.text.clone(), nan: t.nan }).collect(), occs)
    }
    fn scan_text_plain(&self, s: &str, t: f64) -> (Vec<PTok>, Vec<Occ>) {
        let toks: Vec<BasicToken> = tokenize(s).collect();
        let occs = find_numbers(toks.iter(), &self.lang, t).into_iter().map(Occ::from).collect();
        (toks.iter().map(|t| PTok { text: t.text.clone(), nan: t.nan }).collect(), occs)
    }
    fn annotate(&self, toks: &mut Vec<IdTok>) {
        self.lang.basic_annotate(toks)
    }
    fn find(&self, toks: &[IdTok], t: f64) -> Vec<Occ> {
        find_numbers(toks.iter(), &self.lang, t).into_iter().map(Occ::from).collect()
    }
    fn find_iter_steps(&self, toks: &[IdTok], t: f64, extra_calls: usize) -> (usize, Vec<IterStep>) {
        let pulled = Arc::new(AtomicUsize::new(0));
        let counted = Counted { inner: toks.iter(), pulled: pulled.clone() };
        let mut it = find_numbers_iter(counted, &self.lang, t);
        let before_first = pulled.load(Ordering::Relaxed);
        let mut steps = Vec::new();
        let mut extra = 0;
        loop {
            let o = it.next().map(Occ::from);
            let done = o.is_none();
            steps.push(IterStep { occ: o, pulled_after: pulled.load(Ordering::Relaxed) });
            if done {
                if extra >= extra_calls {
                    break;
                }
                extra += 1;
            }
            if steps.len() > toks.len() + 8 + extra_calls {
                break; // runaway guard; the monitor will flag the length mismatch
            }
        }
        (before_first, steps)
    }
    fn replace_stream(&self, toks: Vec<IdTok>, t: f64) -> Vec<IdTok> {
        replace_numbers_in_stream(toks, &self.lang, t)
    }
    fn find_iter_first(&self, toks: &[IdTok], t: f64, k: usize) -> Vec<Occ> {
        find_numbers_iter(toks.iter(), &self.lang, t).take(k).map(Occ::from).collect()
    }
    fn apply(&self, w: &str, b: &mut DigitString) -> Result<(), ErrK> {
        self.lang.apply(w, b).map_err(|e| errk(&e))
    }
    fn apply_decimal(&self, w: &str, b: &mut DigitString) -> Result<(), ErrK> {
        self.lang.apply_decimal(w, b).map_err(|e| errk(&e))
    }
    fn is_linking(&self, w: &str) -> bool {
        self.lang.is_linking(w)
    }
    fn is_decimal_sep(&self, w: &str) -> bool {
        self.lang.is_decimal_sep(w)
    }
    fn marker_of(&self, w: &str) -> String {
        marker_string(&self.lang.get_morph_marker(w))
    }
    fn format(&self, b: &DigitString) -> (String, f64) {
        self.lang.format_and_value(b)
    }
    fn format_decimal(&self, i: &DigitString, d: &DigitString) -> (String, f64) {
        self.lang.format_decimal_and_value(i, d)
    }
    fn scan_observed(&self, s: &str, t: f64) -> (Vec<Occ>, Vec<ApplyEvent>) {
        let mut toks: Vec<BasicToken> = tokenize(s).collect();
        self.lang.basic_annotate(&mut toks);
        let obs = Observed::new(&self.lang);
        let occs: Vec<Occ> = find_numbers(toks.iter(), &obs, t).into_iter().map(Occ::from).collect();
        let log = obs.log.into_inner();
        (occs, log)
    }
    fn validate_observed(&self, s: &str) -> (Result<String, ErrK>, Vec<ApplyEvent>) {
        let obs = Observed::new(&self.lang);
        let r = text2digits(s, &obs).map_err(|e| errk(&e));
        (r, obs.log.into_inner())
    }
    fn probe_builder(&self, words: &[&str], decimal_from: usize) -> BuilderProbe {
        let mut b = DigitString::new();
        let mut d = DigitString::new();
        let mut statuses = Vec::new();
        for (i, w) in words.iter().enumerate() {
            let r = if i >= decimal_from { self.lang.apply_decimal(w, &mut d) } else { self.lang.apply(w, &mut b) };
            statuses.push(r.as_ref().err().map(errk));
        }
        let (formatted, value) = if b.is_empty() {
            (String::from("<empty>"), 0.0)
        } else if decimal_from < words.len() && !d.is_empty() {
            self.lang.format_decimal_and_value(&b, &d)
        } else {
            self.lang.format_and_value(&b)
        };
        BuilderProbe {
            statuses,
            rendering: format!("{}|{}", b.to_string(), d.to_string()),
            len: b.len(),
            is_ordinal: b.is_ordinal(),
            flags: b.flags,
            marker: marker_string(&b.marker),
            formatted,
            value_bits: value.to_bits(),
        }
    }
}

/// The seven concrete interpreters.
pub fn concrete(code: &str) -> Box<dyn Api> {
    match code {
        "en" => Box::new(Wrap { code: "en", lang: English::new() }),
        "fr" => Box::new(Wrap { code: "fr", lang: French::new() }),
        "es" => Box::new(Wrap { code: "es", lang: Spanish::new() }),
        "pt" => Box::new(Wrap { code: "pt", lang: Portuguese::new() }),
        "it" => Box::new(Wrap { code: "it", lang: Italian::new() }),
        "de" => Box::new(Wrap { code: "de", lang: German::new() }),
        "nl" => Box::new(Wrap { code: "nl", lang: Dutch::new() }),
        _ => panic!("unknown language code {}", code),
    }
}

/// The same languages through the runtime-selectable facade.
pub fn facade(code: &str) -> Box<dyn Api> {
    let (c, l): (&'static str, Language) = match code {
        "en" => ("en", Language::english()),
        "fr" => ("fr", Language::french()),
        "es" => ("es", Language::spanish()),
        "pt" => ("pt", Language::portuguese()),
        "it" => ("it", Language::italian()),
        "de" => ("de", Language::german()),
        "nl" => ("nl", Language::dutch()),
        _ => panic!("unknown language code {}", code),
    };
    Box::new(Wrap { code: c, lang: l })
}

/// Through `get_interpreter_for`.
pub fn lookup(code: &str) -> Option<Box<dyn Api>> {
    let l = text2num::get_interpreter_for(code)?;
    let c: &'static str = LANGS.iter().find(|c| **c == code).copied().unwrap_or("??");
    Some(Box::new(Wrap { code: c, lang: l }))
}

pub fn all_concrete() -> Vec<Box<dyn Api>> {
    LANGS.iter().map(|c| concrete(c)).collect()
}
