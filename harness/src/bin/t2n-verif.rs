//! Runner: `t2n-verif <Cxx> quick|thorough` or `t2n-verif <Cxx> --replay <file>`.

use std::time::Instant;

use t2n_verif::core::{Ctx, Tier};
use t2n_verif::json;
use t2n_verif::monitors;

fn env_u64(k: &str, d: u64) -> u64 {
    std::env::var(k).ok().and_then(|v| v.trim().parse::<i64>().ok()).map(|v| v as u64).unwrap_or(d)
}

fn env_f64(k: &str, d: f64) -> f64 {
    std::env::var(k).ok().and_then(|v| v.trim().parse::<f64>().ok()).unwrap_or(d)
}

fn main() {
    let args: Vec<String> = std::env::args().collect();
    if args.len() < 3 {
        eprintln!("usage: t2n-verif <Cxx> quick|thorough | t2n-verif <Cxx> --replay <file> | t2n-verif worker <name> ...");
        std::process::exit(2);
    }
    if args[1] == "worker" {
        std::process::exit(monitors::worker_main(&args[2..]));
    }
    if args[1] == "eval" {
        // debugging aid: t2n-verif eval <lang> <threshold> <text>...  (not used by any registered check)
        let code = args[2].as_str();
        let th: f64 = args.get(3).and_then(|t| t.parse().ok()).unwrap_or(0.0);
        for text in &args[4..] {
            for (name, api) in [("concrete", t2n_verif::api::concrete(code)), ("facade", t2n_verif::api::facade(code))] {
                println!("[{} {}] {:?}\n  replace@{} = {:?}\n  text2digits = {:?}\n  find = {:?}", code, name, text, th, api.replace(text, th), api.validate(text), api.scan_text(text, th).1);
            }
        }
        std::process::exit(0);
    }
    if args[1] == "pairs" {
        // debugging aid: every pair a, b < 100 joined by the conjunction that the library fuses into one number
        let ls = monitors::LangSet::new();
        for code in t2n_verif::api::LANGS {
            let info = t2n_verif::spell::info(code);
            let mut n = 0;
            for a in 0..100u64 {
                for b in 0..100u64 {
                    let text = format!("{} {} {}", t2n_verif::spell::cardinal(code, a), info.conj, t2n_verif::spell::cardinal(code, b));
                    let out = ls.api(code).replace(&text, 0.0);
                    if out != format!("{} {} {}", a, info.conj, b) {
                        n += 1;
                        if n <= args[2].parse::<usize>().unwrap_or(20) {
                            println!("[{}] {:?} -> {:?}", code, text, out);
                        }
                    }
                }
            }
            println!("[{}] {} fused pairs", code, n);
        }
        std::process::exit(0);
    }
    t2n_verif::core::install_panic_hook();
    let prop = args[1].clone();
    let verif_dir = std::env::var("VERIF_DIR").unwrap_or_else(|_| "/verif".to_string());
    let out_dir = std::env::var("VERIF_OUT_DIR").unwrap_or_else(|_| verif_dir.clone());
    let threads = env_u64("VERIF_THREADS", std::thread::available_parallelism().map(|n| n.get() as u64).unwrap_or(4)) as usize;
    let seed = env_u64("VERIF_SEED", 1);
    let scale = env_f64("VERIF_SCALE", 1.0);
    if args[2] == "--replay" {
        let path = args.get(3).cloned().unwrap_or_default();
        let src = match std::fs::read_to_string(&path) {
            Ok(s) => s,
            Err(e) => {
                println!("ERROR cannot read replay file {}: {}", path, e);
                std::process::exit(2);
            }
        };
        let case = match json::parse(&src) {
            Ok(j) => j,
            Err(e) => {
                println!("ERROR cannot parse replay file {}: {}", path, e);
                std::process::exit(2);
            }
        };
        let ctx = Ctx { prop: prop.clone(), tier: Tier::Quick, seed, threads, verif_dir, out_dir: out_dir.clone(), scale, start: Instant::now(), budget_s: 60.0 };
        let fails = monitors::replay(&ctx, &case);
        if fails.is_empty() {
            println!("REPLAY property={} passes now", prop);
            std::process::exit(0);
        } else {
            for f in &fails {
                println!("REPLAY-FAIL property={} {}", prop, f);
            }
            println!("VIOLATION property={} replay={}", prop, path);
            std::process::exit(1);
        }
    }
    let tier = match args[2].as_str() {
        "quick" => Tier::Quick,
        "thorough" => Tier::Thorough,
        other => {
            eprintln!("unknown tier {}", other);
            std::process::exit(2);
        }
    };
    let budget_s = env_f64("VERIF_BUDGET_S", if tier == Tier::Quick { 40.0 } else { 420.0 });
    let ctx = Ctx { prop, tier, seed, threads, verif_dir, out_dir: out_dir.clone(), scale, start: Instant::now(), budget_s };
    // a panic inside a monitor is a harness error, never a verdict
    let res = std::panic::catch_unwind(|| monitors::run(&ctx));
    match res {
        Ok(o) => std::process::exit(o.exit_code),
        Err(_) => {
            let (loc, msg) = t2n_verif::core::take_last_panic().unwrap_or(("?".into(), "?".into()));
            println!("ERROR property={} panic outside the sharded workload at {}: {} (no verdict)", ctx.prop, loc, msg);
            std::process::exit(2);
        }
    }
}
