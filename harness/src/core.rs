//! Run context, per-run report (counters, distinct non-trivial cases, samples, violations), sharded runner,
//! evidence writer, replay files, known-findings handling.

use std::collections::{BTreeMap, HashSet};
use std::sync::Mutex;
use std::time::Instant;

use crate::json::{self, J};
use crate::rng::hash_str;

#[derive(Clone, Copy, Debug, PartialEq, Eq)]
pub enum Tier {
    Quick,
    Thorough,
}

impl Tier {
    pub fn name(&self) -> &'static str {
        match self {
            Tier::Quick => "quick",
            Tier::Thorough => "thorough",
        }
    }
}

#[derive(Clone, Debug)]
pub struct Ctx {
    pub prop: String,
    pub tier: Tier,
    pub seed: u64,
    pub threads: usize,
    pub verif_dir: String,
    /// where evidence/ and replays/ are written (VERIF_OUT_DIR; default: verif_dir).  Trials against seeded changes
    /// write elsewhere so that the committed evidence always comes from the unchanged tree.
    pub out_dir: String,
    /// scale factor for random workloads (VERIF_SCALE, default 1.0)
    pub scale: f64,
    pub start: Instant,
    /// soft time budget for the random part, seconds
    pub budget_s: f64,
}

impl Ctx {
    pub fn quick(&self) -> bool {
        self.tier == Tier::Quick
    }
    pub fn n(&self, quick: u64, thorough: u64) -> u64 {
        let b = if self.quick() { quick } else { thorough };
        ((b as f64) * self.scale).max(1.0) as u64
    }
    pub fn elapsed(&self) -> f64 {
        self.start.elapsed().as_secs_f64()
    }
    pub fn over_budget(&self) -> bool {
        self.elapsed() > self.budget_s
    }
}

#[derive(Clone, Debug)]
pub struct Violation {
    /// class key used to deduplicate reports
    pub key: String,
    /// everything needed to replay: must contain "kind"
    pub case: J,
    pub message: String,
}

const MAX_DISTINCT: usize = 12_000_000;
const MAX_SAMPLES: usize = 12;
const MAX_VIOLATIONS: usize = 40;

#[derive(Default)]
pub struct Report {
    pub evaluations: u64,
    pub distinct: HashSet<u64>,
    pub distinct_saturated: bool,
    pub counters: BTreeMap<String, u64>,
    pub sets: BTreeMap<String, HashSet<u64>>,
    pub samples: Vec<J>,
    pub violations: Vec<Violation>,
    pub violation_total: u64,
    pub known_hits: BTreeMap<String, u64>,
    pub notes: Vec<String>,
    pub inconclusive: Vec<String>,
    pub harness_errors: Vec<String>,
    /// distinct non-trivial cases counted by child worker processes (their hash sets stay in the children)
    pub distinct_external: u64,
}

impl Report {
    pub fn new() -> Report {
        Report::default()
    }
    /// one oracle evaluation on a case whose identity hash is `h`; `nontrivial` says whether the oracle actually
    /// compared something (antecedent true, not skipped)
    pub fn eval(&mut self, h: u64, nontrivial: bool) {
        self.evaluations += 1;
        if nontrivial {
            if self.distinct.len() < MAX_DISTINCT {
                self.distinct.insert(h);
            } else {
                self.distinct_saturated = true;
            }
        }
    }
    pub fn count(&mut self, k: &str) {
        *self.counters.entry(k.to_string()).or_insert(0) += 1;
    }
    pub fn add(&mut self, k: &str, n: u64) {
        *self.counters.entry(k.to_string()).or_insert(0) += n;
    }
    pub fn max(&mut self, k: &str, n: u64) {
        let e = self.counters.entry(k.to_string()).or_insert(0);
        if n > *e {
            *e = n;
        }
    }
    /// record membership of `h` in a named observation set (distinct states / words / classes seen)
    pub fn seen(&mut self, set: &str, h: u64) {
        let s = self.sets.entry(set.to_string()).or_default();
        if s.len() < 2_000_000 {
            s.insert(h);
        }
    }
    pub fn seen_str(&mut self, set: &str, v: &str) {
        self.seen(set, hash_str(v));
    }
    pub fn sample(&mut self, s: J) {
        if self.samples.len() < MAX_SAMPLES {
            self.samples.push(s);
        }
    }
    pub fn want_sample(&self) -> bool {
        self.samples.len() < MAX_SAMPLES
    }
    pub fn violation(&mut self, key: &str, case: J, message: String) {
        self.violation_total += 1;
        if self.violations.iter().any(|v| v.key == key) {
            return;
        }
        if self.violations.len() < MAX_VIOLATIONS {
            self.violations.push(Violation { key: key.to_string(), case, message });
        }
    }
    pub fn known(&mut self, id: &str) {
        *self.known_hits.entry(id.to_string()).or_insert(0) += 1;
    }
    pub fn merge(&mut self, o: Report) {
        self.evaluations += o.evaluations;
        for h in o.distinct {
            if self.distinct.len() < MAX_DISTINCT {
                self.distinct.insert(h);
            } else {
                self.distinct_saturated = true;
                break;
            }
        }
        self.distinct_saturated |= o.distinct_saturated;
        for (k, v) in o.counters {
            if k.starts_with("max_") {
                let e = self.counters.entry(k).or_insert(0);
                if v > *e {
                    *e = v;
                }
            } else {
                *self.counters.entry(k).or_insert(0) += v;
            }
        }
        for (k, s) in o.sets {
            let e = self.sets.entry(k).or_default();
            for h in s {
                if e.len() < 2_000_000 {
                    e.insert(h);
                }
            }
        }
        for s in o.samples {
            if self.samples.len() < MAX_SAMPLES {
                self.samples.push(s);
            }
        }
        self.violation_total += o.violation_total;
        for v in o.violations {
            if !self.violations.iter().any(|x| x.key == v.key) && self.violations.len() < MAX_VIOLATIONS {
                self.violations.push(v);
            }
        }
        for (k, v) in o.known_hits {
            *self.known_hits.entry(k).or_insert(0) += v;
        }
        self.notes.extend(o.notes);
        self.inconclusive.extend(o.inconclusive);
        self.harness_errors.extend(o.harness_errors);
        self.distinct_external += o.distinct_external;
    }
}

thread_local! {
    static CURRENT_CASE: std::cell::RefCell<String> = std::cell::RefCell::new(String::new());
    static LAST_PANIC: std::cell::RefCell<Option<(String, String)>> = std::cell::RefCell::new(None);
}

/// Describe the case about to be handed to the library (used to build a witness if the library panics).
pub fn set_current(lang: &str, what: &str, input: &str) {
    CURRENT_CASE.with(|c| {
        let mut c = c.borrow_mut();
        c.clear();
        c.push_str(lang);
        c.push('\u{1}');
        c.push_str(what);
        c.push('\u{1}');
        c.push_str(input);
    });
}

/// Install a quiet panic hook that remembers (location, message) per thread.
pub fn install_panic_hook() {
    std::panic::set_hook(Box::new(|info| {
        let loc = info.location().map(|l| format!("{}:{}", l.file(), l.line())).unwrap_or_else(|| "?".into());
        let msg = if let Some(s) = info.payload().downcast_ref::<&str>() {
            s.to_string()
        } else if let Some(s) = info.payload().downcast_ref::<String>() {
            s.clone()
        } else {
            "<non-string panic payload>".to_string()
        };
        LAST_PANIC.with(|p| *p.borrow_mut() = Some((loc, msg)));
    }));
}

pub fn take_last_panic() -> Option<(String, String)> {
    LAST_PANIC.with(|p| p.borrow_mut().take())
}

fn is_harness_location(loc: &str) -> bool {
    loc.contains("harness/src") || (loc.starts_with("src/") && !loc.contains("/repo/"))
}

/// Run `f(worker_index, n_workers, &mut Report)` on `ctx.threads` OS threads and merge the reports.
///
/// A panic that escapes from the *library* while a worker evaluates a case means the function under observation did
/// not yield the value the property talks about: it is recorded as a violation with the current case as witness.
/// A panic raised by the harness' own code is a harness error (no verdict).
pub fn run_sharded<F>(ctx: &Ctx, f: F) -> Report
where
    F: Fn(usize, usize, &mut Report) + Sync,
{
    let n = ctx.threads.max(1);
    let merged = Mutex::new(Report::new());
    std::thread::scope(|s| {
        for w in 0..n {
            let f = &f;
            let merged = &merged;
            std::thread::Builder::new()
                // 64 MiB by default (the harness' own recursion must never be the limit); the C03 children ask for the 8 MiB
                // of an ordinary main thread, so that unbounded recursion in the library is seen as what it is
                .stack_size(std::env::var("VERIF_STACK_MB").ok().and_then(|v| v.parse::<usize>().ok()).unwrap_or(64) << 20)
                .spawn_scoped(s, move || {
                    let mut r = Report::new();
                    let res = std::panic::catch_unwind(std::panic::AssertUnwindSafe(|| f(w, n, &mut r)));
                    if res.is_err() {
                        let (loc, msg) = take_last_panic().unwrap_or(("?".into(), "?".into()));
                        let cur = CURRENT_CASE.with(|c| c.borrow().clone());
                        let mut parts = cur.splitn(3, '\u{1}');
                        let lang = parts.next().unwrap_or("").to_string();
                        let what = parts.next().unwrap_or("").to_string();
                        let input = parts.next().unwrap_or("").to_string();
                        if is_harness_location(&loc) {
                            r.harness_errors.push(format!("harness panic at {}: {}", loc, msg));
                        } else {
                            let mut case = J::obj();
                            case.set("kind", "panic");
                            case.set("lang", lang.as_str());
                            case.set("call", what.as_str());
                            case.set("input", input.as_str());
                            case.set("panic_location", loc.as_str());
                            case.set("panic_message", msg.as_str());
                            r.violation(
                                &format!("panic:{}", loc),
                                case,
                                format!("the library panicked at {} ({}) during {} [{}] on input {:?}", loc, msg, what, lang, input),
                            );
                        }
                    }
                    merged.lock().unwrap().merge(r);
                })
                .expect("spawn worker");
        }
    });
    merged.into_inner().unwrap()
}

// ---------------------------------------------------------------------------------------------
// known findings
// ---------------------------------------------------------------------------------------------

#[derive(Clone, Debug)]
pub struct Finding {
    pub id: String,
    pub property: String,
    pub status: String, // "known" | "fixed"
    pub language: String,
    pub what: String,
    pub witnesses: Vec<J>,
    pub attribution: J,
    pub commit: String,
}

pub fn load_findings(verif_dir: &str) -> Vec<Finding> {
    let path = format!("{}/known_findings.json", verif_dir);
    let src = match std::fs::read_to_string(&path) {
        Ok(s) => s,
        Err(_) => return vec![],
    };
    let j = match json::parse(&src) {
        Ok(j) => j,
        Err(e) => {
            eprintln!("warning: cannot parse {}: {}", path, e);
            return vec![];
        }
    };
    let mut out = Vec::new();
    if let Some(arr) = j.get("findings").and_then(|f| f.as_arr()) {
        for f in arr {
            out.push(Finding {
                id: f.str_of("id"),
                property: f.str_of("property"),
                status: f.str_of("status"),
                language: f.str_of("language"),
                what: f.str_of("what"),
                witnesses: f.get("witnesses").and_then(|w| w.as_arr()).cloned().unwrap_or_default(),
                attribution: f.get("attribution").cloned().unwrap_or(J::Null),
                commit: f.str_of("commit"),
            });
        }
    }
    out
}

pub fn known_for<'a>(findings: &'a [Finding], prop: &str) -> Vec<&'a Finding> {
    findings.iter().filter(|f| f.property == prop && f.status == "known").collect()
}

/// Apply a token-rewrite attribution to a text: returns the rewritten text if the feature is present.
pub fn attribution_rewrite(att: &J, text: &str) -> Option<String> {
    if att.str_of("type") != "token_rewrite" {
        return None;
    }
    let from = att.str_of("from");
    let to = att.str_of("to");
    let mut hit = false;
    let out: Vec<String> = text
        .split(' ')
        .map(|w| {
            if w.to_lowercase() == from {
                hit = true;
                // keep capitalisation of the first letter
                if w.chars().next().map(|c| c.is_uppercase()).unwrap_or(false) {
                    crate::spell::capitalize(&to)
                } else {
                    to.clone()
                }
            } else {
                w.to_string()
            }
        })
        .collect();
    if hit {
        Some(out.join(" "))
    } else {
        None
    }
}

pub fn attribution_exact(att: &J, text: &str) -> bool {
    if att.str_of("type") != "exact_input" {
        return false;
    }
    att.get("inputs").and_then(|a| a.as_arr()).map(|a| a.iter().any(|x| x.as_str() == Some(text))).unwrap_or(false)
}

// ---------------------------------------------------------------------------------------------
// finishing a run: print verdict lines, write replays and evidence
// ---------------------------------------------------------------------------------------------

pub struct Outcome {
    pub exit_code: i32,
}

pub fn finish(ctx: &Ctx, mut rep: Report, rule: &str, assumptions: &[&str], extra: Vec<(String, J)>) -> Outcome {
    let wall = ctx.elapsed();
    let distinct = rep.distinct.len() as u64 + rep.distinct_external;
    if !rep.harness_errors.is_empty() {
        for e in &rep.harness_errors {
            println!("ERROR property={} {}", ctx.prop, e);
        }
        return Outcome { exit_code: 2 };
    }
    // replay files
    let mut exit_code = 0;
    let replay_dir = format!("{}/replays/{}", ctx.out_dir, ctx.prop);
    if !rep.violations.is_empty() {
        let _ = std::fs::create_dir_all(&replay_dir);
    }
    for v in &rep.violations {
        let mut case = v.case.clone();
        case.set("property", ctx.prop.as_str());
        case.set("message", v.message.as_str());
        case.set("seed", ctx.seed);
        case.set("tier", ctx.tier.name());
        let body = case.to_pretty();
        let path = format!("{}/{:016x}.json", replay_dir, hash_str(&v.key));
        let _ = std::fs::write(&path, body);
        println!("VIOLATION property={} replay={}", ctx.prop, path);
        println!("  detail: {}", v.message);
        exit_code = 1;
    }
    if distinct < 2 && exit_code == 0 {
        rep.inconclusive.push("fewer than 2 distinct non-trivial cases were judged".into());
    }
    let mut coverage = J::obj();
    coverage.set("evaluations", rep.evaluations.max(1));
    coverage.set("distinct_nontrivial", distinct);
    let mut rule_s = rule.to_string();
    if rep.distinct_saturated {
        rule_s.push_str(" [distinct counter saturated: the number given is a lower bound]");
    }
    coverage.set("rule", rule_s);
    if rep.samples.is_empty() {
        rep.samples.push(J::Str("(no sample recorded)".into()));
    }
    coverage.set("samples", J::Arr(rep.samples.clone()));
    let mut counters = J::obj();
    for (k, v) in &rep.counters {
        counters.set(k, *v);
    }
    coverage.set("counters", counters);
    let mut sets = J::obj();
    for (k, v) in &rep.sets {
        sets.set(k, v.len());
    }
    coverage.set("distinct_observations", sets);
    let mut kh = J::obj();
    for (k, v) in &rep.known_hits {
        kh.set(k, *v);
    }
    coverage.set("known_findings_attributed", kh);
    if !rep.notes.is_empty() {
        coverage.set("notes", J::Arr(rep.notes.iter().map(|s| J::Str(s.clone())).collect()));
    }
    if !rep.inconclusive.is_empty() {
        coverage.set("inconclusive", J::Arr(rep.inconclusive.iter().map(|s| J::Str(s.clone())).collect()));
    }
    for (k, v) in extra {
        coverage.set(&k, v);
    }
    let verdict = if exit_code == 1 {
        "violated"
    } else if !rep.inconclusive.is_empty() && distinct < 2 {
        "inconclusive"
    } else {
        "held on what was observed"
    };
    coverage.set("verdict", verdict);
    let ev = J::Obj(vec![
        ("property_id".into(), J::Str(ctx.prop.clone())),
        ("tier".into(), J::Str(ctx.tier.name().into())),
        ("seed".into(), J::Int(ctx.seed as i64)),
        ("level".into(), J::Str("exploration".into())),
        ("coverage".into(), coverage),
        ("assumptions".into(), J::Arr(assumptions.iter().map(|s| J::Str(s.to_string())).collect())),
        ("wall_s".into(), J::Num((wall * 100.0).round() / 100.0)),
        ("violations".into(), J::Int(rep.violation_total as i64)),
    ]);
    let _ = std::fs::create_dir_all(format!("{}/evidence", ctx.out_dir));
    let path = format!("{}/evidence/{}.json", ctx.out_dir, ctx.prop);
    if let Err(e) = std::fs::write(&path, ev.to_pretty()) {
        eprintln!("ERROR cannot write evidence {}: {}", path, e);
        return Outcome { exit_code: 2 };
    }
    for s in &rep.inconclusive {
        println!("INCONCLUSIVE property={} {}", ctx.prop, s);
    }
    println!(
        "{} property={} tier={} seed={} evaluations={} distinct_nontrivial={} violations={} known_attributed={} wall={:.1}s",
        if exit_code == 0 { "OK" } else { "FAIL" },
        ctx.prop,
        ctx.tier.name(),
        ctx.seed,
        rep.evaluations,
        distinct,
        rep.violation_total,
        rep.known_hits.values().sum::<u64>(),
        wall
    );
    if exit_code == 0 && distinct < 2 {
        // a run that judged nothing must not pass vacuously
        println!("ERROR property={} judged nothing", ctx.prop);
        return Outcome { exit_code: 2 };
    }
    Outcome { exit_code }
}
