//! Workload generators: number sampler, grammar-noise word streams, hostile text.

use crate::lexicon::{Lexicon, PUNCT, WS};
use crate::rng::Rng;

pub const CONTEXT_GROUPS: [u64; 9] = [0, 1, 2, 21, 100, 101, 180, 181, 999];

/// deterministic part of the number sampler (seed only rotates the contexts of the group sweep)
pub fn group_sweep(seed: u64) -> Vec<u64> {
    let mut v = Vec::with_capacity(4000 * 3);
    let mut rng = Rng::derive(seed, "group-sweep", 0);
    for pos in 0..4u32 {
        for g in 0..1000u64 {
            for rep in 0..3 {
                let mut n: u64 = 0;
                for p in (0..4u32).rev() {
                    let grp = if p == pos {
                        g
                    } else if rep == 0 {
                        0
                    } else if rng.chance(1, 4) {
                        rng.below(1000)
                    } else {
                        *rng.pick(&CONTEXT_GROUPS)
                    };
                    n = n * 1000 + grp;
                }
                v.push(n);
            }
        }
    }
    v
}

pub fn boundaries() -> Vec<u64> {
    let mut v = Vec::new();
    for p in 0..12u32 {
        let base = 10u64.pow(p);
        for d in 1..=9u64 {
            let x = d * base;
            v.push(x);
            v.push(x + 1);
            v.push(x - 1);
            if p >= 3 {
                v.push(x + 10u64.pow(p - 3));
                v.push(x + 10u64.pow(p - 1) + 1);
            }
        }
    }
    v.retain(|&x| x < 1_000_000_000_000);
    v
}

/// digit-biased random number with 1..=max_digits digits
pub fn random_number(rng: &mut Rng, max_digits: u32) -> u64 {
    if rng.chance(1, 12) {
        // the longest spellings: no zero digit, digits whose words are long in most languages (777 777 is one 65-byte
        // word in German), full length or a multiple of three digits
        let len = if rng.chance(1, 2) { max_digits } else { (3 * (1 + rng.below(4) as u32)).min(max_digits) };
        let mut n: u64 = 0;
        for _ in 0..len {
            n = n * 10 + *rng.pick(&[7u64, 7, 7, 7, 5, 3, 4, 9, 6, 7]);
        }
        return n;
    }
    let len = 1 + rng.below(max_digits as u64) as u32;
    let mut n: u64 = 0;
    for i in 0..len {
        let d = match rng.below(10) {
            0..=2 => 0,
            3..=4 => 1,
            5 => 8,
            _ => rng.below(10),
        };
        let d = if i == 0 && d == 0 { 1 + rng.below(9) } else { d };
        n = n * 10 + d;
    }
    n
}

#[derive(Clone, Copy, Debug, PartialEq, Eq, Hash)]
pub enum WClass {
    Number,
    Ordinal,
    Conj,
    Sep,
    Linking,
    Filler,
    Punct,
    Zero,
    /// a token made of digits (already a numeral, not a number word)
    Digits,
    /// two vocabulary words joined into one token (hyphenated in en/fr/es/pt, glued in de/nl/it): mostly invalid compounds
    Compound,
}

/// One element of a grammar-noise stream
#[derive(Clone, Debug)]
pub struct NoiseTok {
    pub text: String,
    pub class: WClass,
}

/// weights: number 45, ordinal 8, conj 6, sep 5, linking 8, filler 16, punct 12
pub fn noise_stream(rng: &mut Rng, lex: &Lexicon, len: usize) -> Vec<NoiseTok> {
    let mut out = Vec::with_capacity(len);
    for _ in 0..len {
        let c = rng.weighted(&[38, 8, 6, 5, 8, 16, 12, 4, 3, 3]);
        let (text, class) = match c {
            0 => (rng.pick(&lex.number_words).clone(), WClass::Number),
            1 => {
                if lex.ordinal_words.is_empty() {
                    (rng.pick(&lex.number_words).clone(), WClass::Number)
                } else {
                    (rng.pick(&lex.ordinal_words).clone(), WClass::Ordinal)
                }
            }
            2 => (lex.conj.to_string(), WClass::Conj),
            3 => (lex.sep.to_string(), WClass::Sep),
            4 => (rng.pick(&lex.linking).clone(), WClass::Linking),
            5 => (rng.pick(&lex.fillers).clone(), WClass::Filler),
            6 => (if rng.chance(1, 8) { " - ".to_string() } else { rng.pick_str(&PUNCT).to_string() }, WClass::Punct),
            7 => (lex.zero.to_string(), WClass::Zero),
            8 => (rng.pick_str(&["2", "30", "7", "1999", "05", "١٢", "½", "3,5"]).to_string(), WClass::Digits),
            _ => {
                let pick = |rng: &mut Rng| -> String {
                    match rng.below(6) {
                        0 => lex.zero.to_string(),
                        1 => lex.conj.to_string(),
                        _ => rng.pick(&lex.number_words).clone(),
                    }
                };
                let (a, b) = (pick(rng), pick(rng));
                let glue = if matches!(lex.code, "de" | "nl" | "it") && rng.chance(2, 3) { "" } else { "-" };
                match rng.below(8) {
                    // a compound cut at its hyphen: `twenty-` / `-one`
                    0 => (format!("{}-", a), WClass::Compound),
                    1 => (format!("-{}", b), WClass::Compound),
                    _ => (format!("{}{}{}", a, glue, b), WClass::Compound),
                }
            }
        };
        out.push(NoiseTok { text, class });
    }
    out
}

/// Join a noise stream into a text: single spaces between words, punctuation attached to the previous word and
/// followed by a space.
pub fn noise_text(toks: &[NoiseTok]) -> String {
    let mut s = String::new();
    for (i, t) in toks.iter().enumerate() {
        if t.class == WClass::Punct {
            if matches!(t.text.as_str(), "(" | "«" | "/" | "—") {
                if i > 0 {
                    s.push(' ');
                }
                s.push_str(&t.text);
                s.push(' ');
            } else {
                s.push_str(&t.text);
                s.push(' ');
            }
        } else {
            if i > 0 && !s.ends_with(' ') {
                s.push(' ');
            }
            s.push_str(&t.text);
        }
    }
    s
}

const SALT: [&str; 35] = [
    "\u{133}", "\u{132}", "ﬀ", "ǆ", "œ", "Æ", "ẞ",
    "\u{feff}", "\u{200e}", "\u{200f}", "\u{2060}", "\u{180e}", "\u{fffd}",
    "é", "ñ", "ß", "İ", "ǅ", "ﬁ", "e\u{301}", "a\u{308}\u{323}", "日本語", "数字", "😀", "👨‍👩‍👧", "\u{202e}", "\u{0}", "\u{200b}", "١٢٣", "४२", "123", "3", "०", "Ω", "ı",
];

/// characters that look like the two separators the tokenizer special-cases (hyphen, apostrophe) but are not them
pub const HYPHEN_LIKE: [&str; 12] = ["\u{2010}", "\u{2011}", "\u{2012}", "\u{2013}", "\u{2014}", "\u{2212}", "\u{ad}", "\u{fe63}", "\u{ff0d}", "\u{2019}", "\u{2bc}", "\u{ff07}"];

/// the word without its diacritics (`vírgula` -> `virgula`, `tweeëntwintig` -> `tweeentwintig`): what a transcript
/// typed on a plain keyboard contains
pub fn fold_accents(w: &str) -> String {
    w.chars()
        .map(|c| match c {
            'á' | 'à' | 'â' | 'ã' | 'ä' => 'a',
            'é' | 'è' | 'ê' | 'ë' => 'e',
            'í' | 'ì' | 'î' | 'ï' => 'i',
            'ó' | 'ò' | 'ô' | 'õ' | 'ö' => 'o',
            'ú' | 'ù' | 'û' | 'ü' => 'u',
            'ç' => 'c',
            'ñ' => 'n',
            _ => c,
        })
        .collect()
}

/// a near miss of a vocabulary word: accents folded, last letter dropped or doubled, a plural `s`, an accent added
pub fn near_miss(rng: &mut Rng, w: &str) -> String {
    let cs: Vec<char> = w.chars().collect();
    match rng.below(6) {
        0 | 1 => fold_accents(w),
        2 if cs.len() > 1 => cs[..cs.len() - 1].iter().collect(),
        3 => format!("{}{}", w, cs.last().copied().unwrap_or('a')),
        4 => format!("{}s", w),
        _ => w
            .chars()
            .map(|c| match c {
                'e' if rng.chance(1, 3) => 'é',
                'i' if rng.chance(1, 3) => 'í',
                'a' if rng.chance(1, 4) => 'ã',
                _ => c,
            })
            .collect(),
    }
}

pub fn random_case(rng: &mut Rng, w: &str) -> String {
    match rng.below(4) {
        0 => w.to_uppercase(),
        1 => crate::spell::capitalize(w),
        2 => w.chars().map(|c| if rng.chance(1, 2) { c.to_uppercase().collect::<String>() } else { c.to_string() }).collect(),
        _ => w.to_string(),
    }
}

/// Hostile text: noise words joined by varied separators, salted with multi-byte material, mutated vocabulary.
pub fn hostile_text(rng: &mut Rng, lex: &Lexicon, max_words: usize) -> String {
    let n = 1 + rng.usize(max_words);
    let toks = noise_stream(rng, lex, n);
    let mut s = String::new();
    if rng.chance(1, 6) {
        s.push_str(rng.pick_str(&WS));
    }
    for (i, t) in toks.iter().enumerate() {
        let mut w = t.text.clone();
        if t.class != WClass::Punct {
            match rng.below(30) {
                0 => w = rng.pick_str(&SALT).to_string(),
                1 => {
                    // insert a char
                    let cs: Vec<char> = w.chars().collect();
                    let p = rng.usize(cs.len() + 1);
                    let mut o: String = cs[..p].iter().collect();
                    o.push_str(rng.pick_str(&SALT));
                    o.extend(cs[p..].iter());
                    w = o;
                }
                2 => {
                    // delete a char
                    let cs: Vec<char> = w.chars().collect();
                    if cs.len() > 1 {
                        let p = rng.usize(cs.len());
                        w = cs.iter().enumerate().filter(|(i, _)| *i != p).map(|(_, c)| *c).collect();
                    }
                }
                3 | 4 => w = random_case(rng, &w),
                7 => w = near_miss(rng, &w),
                5 => {
                    // a hyphenated / multi-word number whose joiner is replaced by a look-alike character
                    let n = random_number(rng, 3);
                    let p = crate::spell::cardinal(lex.code, n);
                    let j = rng.pick_str(&HYPHEN_LIKE);
                    w = p.replace('-', j).replace(' ', j);
                }
                6 => {
                    if w.contains('-') {
                        w = w.replace('-', rng.pick_str(&HYPHEN_LIKE));
                    } else {
                        w.push_str(rng.pick_str(&HYPHEN_LIKE));
                    }
                }
                _ => {}
            }
        }
        s.push_str(&w);
        if i + 1 < toks.len() || rng.chance(1, 5) {
            match rng.below(28) {
                24 => s.push_str("- "),
                25 => s.push_str("-, "),
                26 => s.push_str(rng.pick_str(&HYPHEN_LIKE)),
                27 => {
                    s.push(' ');
                    s.push_str(rng.pick_str(&HYPHEN_LIKE));
                    s.push(' ');
                }
                0 => s.push_str("-"),
                1 => s.push_str("'"),
                // a mark typed with no space on either side
                23 => s.push_str(rng.pick_str(&[".", ",", ";", ":", "!", "?", "/", "…"])),
                2 => s.push_str(" - "),
                3 => s.push_str(", "),
                4 => s.push_str(". "),
                5 => s.push_str("..."),
                6 => s.push_str(rng.pick_str(&WS)),
                7 => {
                    s.push_str(rng.pick_str(&PUNCT));
                    s.push_str(rng.pick_str(&WS));
                }
                8 => s.push_str("\n"),
                9 => {
                    s.push(' ');
                    s.push_str(rng.pick_str(&PUNCT));
                    s.push(' ');
                }
                _ => s.push(' '),
            }
        }
    }
    s
}

/// Text over an alphabet that cannot spell a number word in any of the seven languages.
/// a long run of ordinary words (no number, no linking word) ending a sentence: puts what follows it tens of kilobytes
/// into the text
pub fn long_filler_prefix(rng: &mut Rng, lex: &Lexicon, words: usize) -> String {
    let mut s = String::with_capacity(words * 8);
    for i in 0..words {
        if i > 0 {
            s.push(if i % 17 == 0 { '\n' } else { ' ' });
        }
        let w: &String = rng.pick(&lex.fillers);
        s.push_str(w);
    }
    s.push_str(". ");
    s
}

pub fn no_number_text(rng: &mut Rng, max_len: usize) -> String {
    const ALPHA: [&str; 30] = [
        "日", "本", "語", "数", "字", "😀", "🎉", "—", "…", "!", "?", ",", ".", ";", ":", "(", ")", " ", " ", " ", "\n", "\t", "\u{a0}", "Ж", "щ", "ы", "ξ",
        "ψ", "1", "7",
    ];
    let n = 1 + rng.usize(max_len);
    let mut s = String::new();
    for _ in 0..n {
        s.push_str(rng.pick_str(&ALPHA));
    }
    s
}

// ---------------------------------------------------------------------------------------------
// annotator-state workloads (C10, C14, C18)
// ---------------------------------------------------------------------------------------------

/// French: sentences that hit the `neuf` ambiguity pass on purpose: determiner x (number | filler) x neuf x
/// (number | filler), several per text.
pub fn annot_fr(rng: &mut Rng, lex: &Lexicon) -> String {
    const DET: [&str; 6] = ["un", "le", "du", "l'", "la", "numéro"];
    const NUMW: [&str; 12] = ["cent", "vingt", "dix", "trente", "mille", "deux", "quatre-vingt", "soixante", "zéro", "cinq", "neuf", "dix-neuf"];
    let k = 1 + rng.usize(4);
    let mut parts: Vec<String> = Vec::new();
    for _ in 0..k {
        let mut ws: Vec<String> = Vec::new();
        if rng.chance(2, 3) {
            ws.push(rng.pick(&lex.fillers).clone());
        }
        let det = rng.pick_str(&DET);
        ws.push(det.to_string());
        if rng.chance(1, 3) {
            ws.push(rng.pick(&lex.fillers).clone());
        }
        ws.push(if rng.chance(1, 2) { rng.pick_str(&NUMW).to_string() } else { rng.pick(&lex.fillers).clone() });
        ws.push("neuf".to_string());
        match rng.below(4) {
            0 => ws.push(rng.pick_str(&NUMW).to_string()),
            1 => ws.push(rng.pick(&lex.fillers).clone()),
            2 => {
                ws.push("virgule".into());
                ws.push(rng.pick_str(&NUMW).to_string());
            }
            _ => {}
        }
        let mut s = String::new();
        for (i, w) in ws.iter().enumerate() {
            if i > 0 && !s.ends_with('\'') {
                s.push(' ');
            }
            s.push_str(w);
        }
        parts.push(s);
    }
    let seps = [" ", ", ", ". ", " et ", " puis ", " ; "];
    let mut out = String::new();
    for (i, p) in parts.iter().enumerate() {
        if i > 0 {
            out.push_str(rng.pick_str(&seps));
        }
        out.push_str(p);
    }
    out
}

/// English: `o` between every combination of number word / filler / punctuation / text boundary.
pub fn annot_en(rng: &mut Rng, lex: &Lexicon, unicode_ws: bool) -> String {
    const NUMW: [&str; 14] = ["one", "two", "five", "nine", "ten", "twenty", "thirty", "hundred", "zero", "eight", "sixty", "first", "twenty-one", "thousand"];
    const PUN: [&str; 6] = [",", ".", ";", "!", "(", "..."];
    let n = 1 + rng.usize(9);
    let mut s = String::new();
    for i in 0..n {
        let w: String = match rng.below(10) {
            0..=3 => if rng.chance(1, 8) { "O".to_string() } else { "o".to_string() },
            // a short fixed list (dense coverage of the common neighbours) or any word of the number vocabulary: plural
            // multipliers, ordinals, fractions, regional spellings
            4..=6 => match rng.below(16) {
                15 => lex.sep.to_string(),
                0..=5 => rng.pick(&lex.number_words).clone(),
                6..=8 if !lex.ordinal_words.is_empty() => rng.pick(&lex.ordinal_words).clone(),
                _ => rng.pick_str(&NUMW).to_string(),
            },
            7 => rng.pick_str(&PUN).to_string(),
            8 => rng.pick(&lex.linking).clone(),
            _ => rng.pick(&lex.fillers).clone(),
        };
        let is_punct = PUN.contains(&w.as_str());
        if i > 0 && !(is_punct && rng.chance(2, 3)) {
            if unicode_ws && rng.chance(1, 3) {
                s.push_str(rng.pick_str(&WS));
            } else {
                s.push(' ');
            }
        }
        s.push_str(&w);
    }
    s
}

/// Lower-case noise sentence with many linking words between small numbers (C11 needs those).
pub fn linking_sentence(rng: &mut Rng, lex: &Lexicon, max_words: usize) -> String {
    let n = 2 + rng.usize(max_words);
    let mut ws: Vec<String> = Vec::new();
    for _ in 0..n {
        let w = match rng.below(10) {
            0..=3 => crate::spell::info(lex.code).digits[1 + rng.usize(9)].to_string(),
            4..=6 => rng.pick(&lex.linking).clone(),
            7 => rng.pick(&lex.fillers).clone(),
            8 => rng.pick_str(&PUNCT).to_string(),
            _ => rng.pick(&lex.number_words).clone(),
        };
        ws.push(w);
    }
    ws.join(" ")
}
