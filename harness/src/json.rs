//! Minimal JSON value, writer and parser (no external crates).

#[derive(Clone, Debug, PartialEq)]
pub enum J {
    Null,
    Bool(bool),
    Int(i64),
    Num(f64),
    Str(String),
    Arr(Vec<J>),
    Obj(Vec<(String, J)>),
}

impl From<&str> for J {
    fn from(s: &str) -> J {
        J::Str(s.to_string())
    }
}
impl From<String> for J {
    fn from(s: String) -> J {
        J::Str(s)
    }
}
impl From<&String> for J {
    fn from(s: &String) -> J {
        J::Str(s.clone())
    }
}
impl From<i64> for J {
    fn from(v: i64) -> J {
        J::Int(v)
    }
}
impl From<u64> for J {
    fn from(v: u64) -> J {
        J::Int(v as i64)
    }
}
impl From<usize> for J {
    fn from(v: usize) -> J {
        J::Int(v as i64)
    }
}
impl From<i32> for J {
    fn from(v: i32) -> J {
        J::Int(v as i64)
    }
}
impl From<f64> for J {
    fn from(v: f64) -> J {
        J::Num(v)
    }
}
impl From<bool> for J {
    fn from(v: bool) -> J {
        J::Bool(v)
    }
}
impl<T: Into<J>> From<Vec<T>> for J {
    fn from(v: Vec<T>) -> J {
        J::Arr(v.into_iter().map(|x| x.into()).collect())
    }
}

#[macro_export]
macro_rules! jobj {
    ( $( $k:expr => $v:expr ),* $(,)? ) => {
        $crate::json::J::Obj(vec![ $( ($k.to_string(), $crate::json::J::from($v)) ),* ])
    };
}

impl J {
    pub fn obj() -> J {
        J::Obj(Vec::new())
    }
    pub fn set(&mut self, k: &str, v: impl Into<J>) {
        if let J::Obj(items) = self {
            let v = v.into();
            for it in items.iter_mut() {
                if it.0 == k {
                    it.1 = v;
                    return;
                }
            }
            items.push((k.to_string(), v));
        }
    }
    pub fn get(&self, k: &str) -> Option<&J> {
        if let J::Obj(items) = self {
            items.iter().find(|(kk, _)| kk == k).map(|(_, v)| v)
        } else {
            None
        }
    }
    pub fn as_str(&self) -> Option<&str> {
        if let J::Str(s) = self {
            Some(s)
        } else {
            None
        }
    }
    pub fn as_i64(&self) -> Option<i64> {
        match self {
            J::Int(i) => Some(*i),
            J::Num(f) => Some(*f as i64),
            _ => None,
        }
    }
    pub fn as_f64(&self) -> Option<f64> {
        match self {
            J::Int(i) => Some(*i as f64),
            J::Num(f) => Some(*f),
            _ => None,
        }
    }
    pub fn as_bool(&self) -> Option<bool> {
        if let J::Bool(b) = self {
            Some(*b)
        } else {
            None
        }
    }
    pub fn as_arr(&self) -> Option<&Vec<J>> {
        if let J::Arr(a) = self {
            Some(a)
        } else {
            None
        }
    }
    pub fn str_of(&self, k: &str) -> String {
        self.get(k).and_then(|v| v.as_str()).unwrap_or("").to_string()
    }

    pub fn to_string(&self) -> String {
        let mut out = String::new();
        self.write(&mut out, 0, false);
        out
    }
    pub fn to_pretty(&self) -> String {
        let mut out = String::new();
        self.write(&mut out, 0, true);
        out.push('\n');
        out
    }

    fn write(&self, out: &mut String, ind: usize, pretty: bool) {
        match self {
            J::Null => out.push_str("null"),
            J::Bool(b) => out.push_str(if *b { "true" } else { "false" }),
            J::Int(i) => out.push_str(&i.to_string()),
            J::Num(f) => {
                if f.is_finite() {
                    let s = format!("{}", f);
                    out.push_str(&s);
                    if !s.contains('.') && !s.contains('e') && !s.contains('E') {
                        out.push_str(".0");
                    }
                } else {
                    // JSON has no NaN/inf: write as string
                    write_str(out, &format!("{}", f));
                }
            }
            J::Str(s) => write_str(out, s),
            J::Arr(a) => {
                if a.is_empty() {
                    out.push_str("[]");
                    return;
                }
                out.push('[');
                for (i, v) in a.iter().enumerate() {
                    if i > 0 {
                        out.push(',');
                    }
                    if pretty {
                        out.push('\n');
                        out.push_str(&" ".repeat(ind + 1));
                    }
                    v.write(out, ind + 1, pretty);
                }
                if pretty {
                    out.push('\n');
                    out.push_str(&" ".repeat(ind));
                }
                out.push(']');
            }
            J::Obj(o) => {
                if o.is_empty() {
                    out.push_str("{}");
                    return;
                }
                out.push('{');
                for (i, (k, v)) in o.iter().enumerate() {
                    if i > 0 {
                        out.push(',');
                    }
                    if pretty {
                        out.push('\n');
                        out.push_str(&" ".repeat(ind + 1));
                    }
                    write_str(out, k);
                    out.push(':');
                    if pretty {
                        out.push(' ');
                    }
                    v.write(out, ind + 1, pretty);
                }
                if pretty {
                    out.push('\n');
                    out.push_str(&" ".repeat(ind));
                }
                out.push('}');
            }
        }
    }
}

fn write_str(out: &mut String, s: &str) {
    out.push('"');
    for c in s.chars() {
        match c {
            '"' => out.push_str("\\\""),
            '\\' => out.push_str("\\\\"),
            '\n' => out.push_str("\\n"),
            '\r' => out.push_str("\\r"),
            '\t' => out.push_str("\\t"),
            c if (c as u32) < 0x20 || c == '\u{7f}' || c == '\u{2028}' || c == '\u{2029}' || c == '\u{202e}' || c == '\u{feff}' => {
                out.push_str(&format!("\\u{:04x}", c as u32));
            }
            c => out.push(c),
        }
    }
    out.push('"');
}

pub fn parse(src: &str) -> Result<J, String> {
    let mut p = Parser { s: src.as_bytes(), i: 0, src };
    p.ws();
    let v = p.value()?;
    p.ws();
    if p.i != p.s.len() {
        return Err(format!("trailing data at {}", p.i));
    }
    Ok(v)
}

struct Parser<'a> {
    s: &'a [u8],
    i: usize,
    src: &'a str,
}

impl<'a> Parser<'a> {
    fn ws(&mut self) {
        while self.i < self.s.len() && matches!(self.s[self.i], b' ' | b'\n' | b'\r' | b'\t') {
            self.i += 1;
        }
    }
    fn value(&mut self) -> Result<J, String> {
        if self.i >= self.s.len() {
            return Err("eof".into());
        }
        match self.s[self.i] {
            b'{' => {
                self.i += 1;
                let mut items = Vec::new();
                self.ws();
                if self.s.get(self.i) == Some(&b'}') {
                    self.i += 1;
                    return Ok(J::Obj(items));
                }
                loop {
                    self.ws();
                    let k = match self.value()? {
                        J::Str(s) => s,
                        _ => return Err("key not string".into()),
                    };
                    self.ws();
                    if self.s.get(self.i) != Some(&b':') {
                        return Err(format!("expected : at {}", self.i));
                    }
                    self.i += 1;
                    self.ws();
                    let v = self.value()?;
                    items.push((k, v));
                    self.ws();
                    match self.s.get(self.i) {
                        Some(b',') => self.i += 1,
                        Some(b'}') => {
                            self.i += 1;
                            return Ok(J::Obj(items));
                        }
                        _ => return Err(format!("expected , or }} at {}", self.i)),
                    }
                }
            }
            b'[' => {
                self.i += 1;
                let mut items = Vec::new();
                self.ws();
                if self.s.get(self.i) == Some(&b']') {
                    self.i += 1;
                    return Ok(J::Arr(items));
                }
                loop {
                    self.ws();
                    items.push(self.value()?);
                    self.ws();
                    match self.s.get(self.i) {
                        Some(b',') => self.i += 1,
                        Some(b']') => {
                            self.i += 1;
                            return Ok(J::Arr(items));
                        }
                        _ => return Err(format!("expected , or ] at {}", self.i)),
                    }
                }
            }
            b'"' => {
                self.i += 1;
                let mut out = String::new();
                loop {
                    if self.i >= self.s.len() {
                        return Err("eof in string".into());
                    }
                    let c = self.s[self.i];
                    match c {
                        b'"' => {
                            self.i += 1;
                            return Ok(J::Str(out));
                        }
                        b'\\' => {
                            self.i += 1;
                            let e = *self.s.get(self.i).ok_or("eof")?;
                            self.i += 1;
                            match e {
                                b'n' => out.push('\n'),
                                b'r' => out.push('\r'),
                                b't' => out.push('\t'),
                                b'b' => out.push('\u{8}'),
                                b'f' => out.push('\u{c}'),
                                b'/' => out.push('/'),
                                b'\\' => out.push('\\'),
                                b'"' => out.push('"'),
                                b'u' => {
                                    let h = std::str::from_utf8(&self.s[self.i..self.i + 4]).map_err(|e| e.to_string())?;
                                    let mut cp = u32::from_str_radix(h, 16).map_err(|e| e.to_string())?;
                                    self.i += 4;
                                    if (0xD800..0xDC00).contains(&cp) && self.s.get(self.i) == Some(&b'\\') && self.s.get(self.i + 1) == Some(&b'u') {
                                        let h2 = std::str::from_utf8(&self.s[self.i + 2..self.i + 6]).map_err(|e| e.to_string())?;
                                        let lo = u32::from_str_radix(h2, 16).map_err(|e| e.to_string())?;
                                        self.i += 6;
                                        cp = 0x10000 + ((cp - 0xD800) << 10) + (lo - 0xDC00);
                                    }
                                    out.push(char::from_u32(cp).unwrap_or('\u{fffd}'));
                                }
                                _ => return Err("bad escape".into()),
                            }
                        }
                        _ => {
                            // copy one UTF-8 char
                            let ch = self.src[self.i..].chars().next().unwrap();
                            out.push(ch);
                            self.i += ch.len_utf8();
                        }
                    }
                }
            }
            b't' if self.s[self.i..].starts_with(b"true") => {
                self.i += 4;
                Ok(J::Bool(true))
            }
            b'f' if self.s[self.i..].starts_with(b"false") => {
                self.i += 5;
                Ok(J::Bool(false))
            }
            b'n' if self.s[self.i..].starts_with(b"null") => {
                self.i += 4;
                Ok(J::Null)
            }
            _ => {
                let st = self.i;
                while self.i < self.s.len() && matches!(self.s[self.i], b'0'..=b'9' | b'-' | b'+' | b'.' | b'e' | b'E') {
                    self.i += 1;
                }
                let t = &self.src[st..self.i];
                if t.is_empty() {
                    return Err(format!("unexpected byte at {}", st));
                }
                if let Ok(i) = t.parse::<i64>() {
                    Ok(J::Int(i))
                } else {
                    t.parse::<f64>().map(J::Num).map_err(|e| e.to_string())
                }
            }
        }
    }
}
