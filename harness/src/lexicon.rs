//! Per-language generator material: safe fillers (self-checked against the running library), linking words,
//! annotator triggers, punctuation and whitespace kinds, and a number vocabulary derived from the spellers.

use std::collections::BTreeSet;

use text2num::digit_string::DigitString;

use crate::api::{Api, ErrK};
use crate::spell;

pub const PUNCT: [&str; 18] = [",", ".", ";", ":", "!", "?", "(", ")", "\"", "…", "...", "/", "«", "—", "¿", "¡", "»", "„"];
/// punctuation that may directly follow a number word
pub const PUNCT_AFTER: [&str; 8] = [",", ".", ";", ":", "!", "?", ")", "\""];
pub const PUNCT_BEFORE: [&str; 3] = ["(", "\"", "«"];
/// `char::is_whitespace` strings only
pub const WS: [&str; 29] = [
    " ", "  ", "\t", "\n", "\r\n", "\u{a0}", "\u{2009}", "\u{2003}", "\u{3000}", "\u{2028}",
    // the rest of the Unicode White_Space set: vertical tab, form feed, lone CR, NEL, ogham space, the other fixed-width
    // spaces, paragraph separator, narrow no-break space, medium mathematical space
    "\u{b}", "\u{c}", "\r", "\u{85}", "\u{1680}", "\u{2000}", "\u{2001}", "\u{2002}", "\u{2004}", "\u{2005}", "\u{2006}", "\u{2007}", "\u{2008}", "\u{200a}", "\u{2029}", "\u{202f}", "\u{205f}",
    " \u{b}", "\u{c}\t",
];

pub fn raw_fillers(code: &str) -> &'static [&'static str] {
    match code {
        "en" => &["a", "an", "the", "of", "to", "it", "I", "cats", "dogs", "people", "houses", "green", "quickly", "table", "window", "river", "bought", "walked", "very", "apples", "between", "under", "garden"],
        "fr" => &["la", "de", "à", "je", "il", "chats", "maisons", "voiture", "vert", "rapidement", "table", "fenêtre", "rivière", "marché", "très", "pommes", "entre", "sous", "dans", "jardin", "chiens"],
        "es" => &["el", "la", "de", "a", "yo", "gatos", "casas", "coche", "verde", "rápidamente", "mesa", "ventana", "río", "mercado", "muy", "manzanas", "entre", "bajo", "jardín", "perros", "libro"],
        "pt" => &["o", "a", "de", "eu", "para", "gatos", "casas", "carro", "verde", "rapidamente", "mesa", "janela", "rio", "mercado", "muito", "maçãs", "entre", "sob", "jardim", "cães", "livro"],
        "it" => &["il", "la", "di", "a", "io", "gatti", "case", "macchina", "verde", "rapidamente", "tavolo", "finestra", "fiume", "mercato", "molto", "mele", "tra", "sotto", "giardino", "cani", "libro"],
        "de" => &["der", "die", "das", "zu", "ich", "Katzen", "Häuser", "Auto", "grün", "schnell", "Tisch", "Fenster", "Fluss", "Markt", "sehr", "Äpfel", "zwischen", "unter", "Garten", "Vögel", "Buch"],
        "nl" => &["de", "het", "van", "te", "ik", "katten", "huizen", "auto", "groen", "snel", "tafel", "raam", "rivier", "markt", "erg", "appels", "tussen", "onder", "tuin", "honden", "boek"],
        _ => &[],
    }
}

/// linking words used as generator material (the oracle never trusts this list: it asks `is_linking`)
pub fn raw_linking(code: &str) -> &'static [&'static str] {
    match code {
        "en" => &["and", "plus", "minus", "so", "then", "uh", "well", "is", "ok", "yes"],
        "fr" => &["et", "plus", "moins", "puis", "euh", "alors", "encore", "bien", "oui", "voilà", "c'est"],
        "es" => &["y", "pues", "menos", "mas", "entonces", "luego", "pero", "vale", "son", "con", "no"],
        "pt" => &["e", "mais", "menos", "então", "bem", "mas", "agora", "são", "com", "não", "ou", "outra", "vez", "tarde", "aí", "está", "um"],
        "it" => &["e", "più", "meno", "poi", "ancora", "ehm", "è", "ben"],
        "de" => &["und", "aber", "also", "auch", "noch", "dann", "ja", "so", "genau", "äh", "mal"],
        "nl" => &["en", "plus", "min", "dus", "dan", "dat", "is", "ja", "uh"],
        _ => &[],
    }
}

/// extra number-like vocabulary that the spellers do not produce (fractions, plural ordinals, regional or tolerated
/// spellings mentioned in the library documentation): generator material only
pub fn extra_number_words(code: &str) -> &'static [&'static str] {
    match code {
        "en" => &["fifths", "thirds", "oneths", "twenty-fifths", "hundredths", "nought", "fourty", "o", "seconds", "halves"],
        "fr" => &["unièmes", "cinquièmes", "seconde", "second", "premiers", "mil", "septante", "nonante", "huitante", "octante", "quatre-vingts", "cents"],
        "es" => &["onceavo", "doceavo", "treceavos", "catorceavo", "quinceavo", "veintavo", "treintavos", "centavo", "centavos", "veintiunoavo", "primer", "tercer", "segundo", "segundos", "cienta", "millon", "veintidos"],
        "pt" => &["segundo", "segundos", "bilhão", "bilhões", "biliões", "quatorze", "dezesseis", "uma", "duas", "meia"],
        "it" => &["secondo", "secondi", "centesimi", "un", "una", "mezzo", "tré", "centuno", "bilione", "bilioni"],
        "de" => &["zwo", "eine", "einen", "dreissig", "billion", "milliarden", "hundertste", "zweite", "siebte"],
        "nl" => &["één", "biljoen", "miljardste", "honderdste", "achtste", "derde", "drieenzeventig", "drieentwintig", "drieendertigste"],
        _ => &[],
    }
}

/// words the ambiguity annotators react to
pub fn triggers(code: &str) -> &'static [&'static str] {
    match code {
        "fr" => &["un", "le", "du", "l'", "numéro", "neuf"],
        "en" => &["o"],
        _ => &[],
    }
}

pub struct Lexicon {
    pub code: &'static str,
    pub fillers: Vec<String>,
    pub dropped_fillers: Vec<String>,
    pub linking: Vec<String>,
    pub number_words: Vec<String>,
    /// the part of `number_words` that comes from the spellers alone (no extra material): an independent list of words
    /// that ARE number words, whatever the running library answers
    pub speller_words: Vec<String>,
    pub ordinal_words: Vec<String>,
    pub conj: &'static str,
    pub sep: &'static str,
    pub zero: &'static str,
}

fn is_safe_filler(api: &dyn Api, w: &str) -> bool {
    let lw = w.to_lowercase();
    if api.validate(w).is_ok() || api.is_linking(&lw) || api.is_linking(w) || api.is_decimal_sep(&lw) {
        return false;
    }
    if triggers(api.code()).contains(&lw.as_str()) {
        return false;
    }
    // on a fresh builder and on builders holding a number the word must be refused, and not as "more to come"
    for init in ["", "2", "20", "100", "1000"] {
        let mut b = DigitString::new();
        if !init.is_empty() {
            let _ = b.put(init.as_bytes());
        }
        match api.apply(&lw, &mut b) {
            Ok(()) => return false,
            Err(ErrK::Incomplete) => return false,
            Err(_) => {}
        }
        let mut d = DigitString::new();
        match api.apply_decimal(&lw, &mut d) {
            Ok(()) => return false,
            Err(ErrK::Incomplete) => return false,
            Err(_) => {}
        }
    }
    // alone in a text it must stay untouched
    api.replace(w, 0.0) == w
}

impl Lexicon {
    pub fn build(api: &dyn Api) -> Lexicon {
        let code = api.code();
        let info = spell::info(code);
        let mut fillers = Vec::new();
        let mut dropped = Vec::new();
        for w in raw_fillers(code) {
            if is_safe_filler(api, w) {
                fillers.push(w.to_string());
            } else {
                dropped.push(w.to_string());
            }
        }
        // number vocabulary from the spellers
        let mut nums: BTreeSet<String> = BTreeSet::new();
        let mut sample: Vec<u64> = (0..=100).collect();
        sample.extend([200, 300, 400, 500, 600, 700, 800, 900, 1000, 2000, 1_000_000, 2_000_000, 1_000_000_000, 2_000_000_000]);
        sample.extend([101, 108, 180, 181, 188, 121, 1001, 21_000, 101_000]);
        for &n in &sample {
            for v in spell::cardinal_variants(code, n) {
                for w in v.text.split(|c: char| c == ' ') {
                    if !w.is_empty() {
                        nums.insert(w.to_lowercase());
                    }
                    for part in w.split('-') {
                        if !part.is_empty() {
                            nums.insert(part.to_lowercase());
                        }
                    }
                }
                if matches!(code, "it" | "de" | "nl") {
                    for m in spell::morphemes_of_text(code, &v.text) {
                        nums.insert(m);
                    }
                }
            }
        }
        let mut speller_words: Vec<String> = nums.iter().filter(|w| *w != info.conj && !w.is_empty()).cloned().collect();
        for w in extra_number_words(code) {
            nums.insert(w.to_string());
        }
        nums.remove(info.conj);
        let mut ords: BTreeSet<String> = BTreeSet::new();
        let mut osample: Vec<u64> = (1..=31).collect();
        osample.extend([40, 50, 60, 70, 80, 90, 100, 101, 200, 1000]);
        for &n in &osample {
            for o in spell::ordinals(code, n) {
                for w in o.text.split(|c: char| c == ' ' || c == '-') {
                    if !w.is_empty() && !nums.contains(&w.to_lowercase()) && w != info.conj {
                        ords.insert(w.to_lowercase());
                    }
                }
            }
        }
        Lexicon {
            code,
            fillers,
            dropped_fillers: dropped,
            linking: raw_linking(code).iter().map(|s| s.to_string()).collect(),
            number_words: nums.into_iter().collect(),
            speller_words: {
                speller_words.sort();
                speller_words
            },
            ordinal_words: ords.into_iter().collect(),
            conj: info.conj,
            sep: info.sep,
            zero: info.zero,
        }
    }
}
