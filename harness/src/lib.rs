//! Runtime-monitoring harness for text2num-rs (see /verif/DESIGN.md).

pub mod api;
pub mod core;
pub mod gen;
pub mod json;
pub mod lexicon;
pub mod monitors;
pub mod rng;
pub mod spell;
pub mod streams;
