//! C01 Cardinal round-trip: reference-model monitor (independent spellers are the model, the library is the
//! inverse).

use crate::api::LANGS;
use crate::core::{self, attribution_rewrite, finish, known_for, load_findings, run_sharded, Ctx, Finding, Outcome, Report};
use crate::gen;
use crate::jobj;
use crate::json::J;
use crate::lexicon::{PUNCT_AFTER, PUNCT_BEFORE};
use crate::rng::{hash_bytes, Rng};
use crate::spell;

use super::{in_context, judge_roundtrip, pick_fillers, LangSet, CONTEXT_NAMES, N_CONTEXTS};

pub const KIND: &str = "cardinal-roundtrip";

/// Judge one (language, n, phrase, context).  Returns the failure message if any.
pub fn judge_case(ls: &LangSet, code: &str, n: u64, phrase: &str, cid: usize, f: &[&str; 4], p: &str, q: &str) -> Option<String> {
    let api = ls.api(code);
    let digits = n.to_string();
    let conj = spell::info(code).conj;
    let (text, expected) = in_context(cid, phrase, &digits, f, p, q, conj);
    ls.polyglot_probe(code, phrase, &text);
    judge_roundtrip(api, phrase, &text, &expected, &digits, n as f64, false, cid == 0)
}

fn case_json(code: &str, n: u64, phrase: &str, variant: &str, cid: usize, f: &[&str; 4], p: &str, q: &str) -> J {
    jobj! {
        "kind" => KIND, "lang" => code, "n" => n, "phrase" => phrase, "variant" => variant,
        "context" => cid, "context_name" => CONTEXT_NAMES[cid],
        "fillers" => J::Arr(f.iter().map(|s| J::from(*s)).collect()), "punct" => p, "quote" => q
    }
}

/// If a known finding explains this failure (counterfactual input repair), return its id.
fn attributed(ls: &LangSet, known: &[&Finding], code: &str, n: u64, phrase: &str, cid: usize, f: &[&str; 4], p: &str, q: &str) -> Option<String> {
    for k in known {
        if k.language != code {
            continue;
        }
        if let Some(repaired) = attribution_rewrite(&k.attribution, phrase) {
            if judge_case(ls, code, n, &repaired, cid, f, p, q).is_none() {
                return Some(k.id.clone());
            }
        }
    }
    None
}

#[allow(clippy::too_many_arguments)]
fn eval_one(
    ls: &LangSet,
    known: &[&Finding],
    rep: &mut Report,
    code: &str,
    n: u64,
    phrase: &str,
    variant: &'static str,
    cid: usize,
    rng: &mut Rng,
) {
    let lex = ls.lexicon(code);
    let f = pick_fillers(rng, lex);
    let p = *rng.pick(&PUNCT_AFTER);
    let q = *rng.pick(&PUNCT_BEFORE);
    let h = hash_bytes(&[code.as_bytes(), phrase.as_bytes(), &[cid as u8]]);
    rep.eval(h, true);
    rep.count(&format!("variant:{}:{}", code, variant));
    rep.count(&format!("context:{}", CONTEXT_NAMES[cid]));
    if let Some(msg) = judge_case(ls, code, n, phrase, cid, &f, p, q) {
        if let Some(id) = attributed(ls, known, code, n, phrase, cid, &f, p, q) {
            rep.known(&id);
            return;
        }
        let key = format!("{}:{}", code, failure_family(ls, code, phrase));
        rep.violation(&key, case_json(code, n, phrase, variant, cid, &f, p, q), format!("[{} n={} variant={}] {}", code, n, variant, msg));
    } else if rep.want_sample() && rng.chance(1, 2000) {
        rep.sample(jobj! {"lang" => code, "n" => n, "phrase" => phrase, "variant" => variant, "context" => CONTEXT_NAMES[cid], "result" => n.to_string()});
    }
}

/// Class of a failing phrase, to deduplicate reports (one witness per class is written): the first word the
/// interpreter refused while validating the phrase, as seen through the `Observed` wrapper (diagnosis only).
pub fn failure_family(ls: &LangSet, code: &str, phrase: &str) -> String {
    let (_r, log) = ls.api(code).validate_observed(phrase);
    for e in &log {
        if let Some(k) = e.result {
            if k != crate::api::ErrK::Incomplete {
                // compounds are refused as a whole: keep the tail, where the offending morpheme usually sits
                let cs: Vec<char> = e.word.chars().collect();
                let tail: String = cs[cs.len().saturating_sub(10)..].iter().collect();
                return format!("first-refused-word-tail={}:{:?}", tail, k);
            }
        }
    }
    "no-word-refused".to_string()
}

fn group_coverage(rep: &mut Report, n: u64) {
    for pos in 0..4u32 {
        let g = n / 1000u64.pow(pos) % 1000;
        rep.seen(&format!("group_values_at_position_{}", pos), g);
    }
}

pub fn run(ctx: &Ctx) -> Outcome {
    let findings = load_findings(&ctx.verif_dir);
    // numbers: deterministic part
    let mut numbers: Vec<u64> = (0..10_000).collect();
    numbers.extend(gen::group_sweep(ctx.seed));
    numbers.extend(gen::boundaries());
    let n_random = ctx.n(300_000, 6_000_000);
    let all_variants = !ctx.quick();
    let numbers = &numbers;
    let findings_ref = &findings;

    let mut rep = run_sharded(ctx, |w, nw, rep| {
        let ls = LangSet::new();
        let known = known_for(findings_ref, "C01");
        let mut rng = Rng::derive(ctx.seed, "C01", w as u64);
        if w == 0 {
            if let Some(note) = super::dropped_fillers_note(&ls) {
                rep.notes.push(note);
            }
        }
        let mut obs_budget = 400usize;
        let mut work = |rep: &mut Report, rng: &mut Rng, n: u64, idx: usize, deep: bool| {
            for code in LANGS {
                if !spell::cardinal_in_domain(code, n) {
                    rep.count("skipped_outside_speller_domain");
                    continue;
                }
                let vs = spell::cardinal_variants(code, n);
                group_coverage(rep, n);
                for (vi, v) in vs.iter().enumerate() {
                    let rotating = vs.len() > 1 && 1 + (idx + ctx.seed as usize) % (vs.len() - 1) == vi;
                    if vi == 0 {
                        // primary: validation + bare rewrite, plus one rotating context
                        eval_one(&ls, &known, rep, code, n, &v.text, v.variant, 0, rng);
                        let cid = 1 + (idx + ctx.seed as usize) % (N_CONTEXTS - 1);
                        eval_one(&ls, &known, rep, code, n, &v.text, v.variant, cid, rng);
                        if deep {
                            for cid in 1..N_CONTEXTS {
                                eval_one(&ls, &known, rep, code, n, &v.text, v.variant, cid, rng);
                            }
                        }
                    } else if deep || rotating {
                        eval_one(&ls, &known, rep, code, n, &v.text, v.variant, 0, rng);
                        // and in one sentence context (capitalised, punctuated ...): variants meet contexts too
                        let cid = if deep { 1 + rng.usize(N_CONTEXTS - 1) } else { 1 + (idx / 2 + vi + ctx.seed as usize) % (N_CONTEXTS - 1) };
                        eval_one(&ls, &known, rep, code, n, &v.text, v.variant, cid, rng);
                    }
                }
                // evidence: which words and digit states the interpreter saw (sampled)
                if obs_budget > 0 && idx % 97 == 0 {
                    obs_budget -= 1;
                    let (_r, log) = ls.api(code).validate_observed(&vs[0].text);
                    for e in log {
                        rep.seen_str(&format!("words_applied_{}", code), &e.word);
                        rep.seen_str("digit_states_seen", &e.after);
                        rep.count(match e.result {
                            None => "apply_ok",
                            Some(crate::api::ErrK::Incomplete) => "apply_incomplete",
                            Some(_) => "apply_rejected",
                        });
                    }
                }
            }
        };
        for (idx, &n) in numbers.iter().enumerate() {
            if idx % nw != w {
                continue;
            }
            work(rep, &mut rng, n, idx, all_variants);
        }
        if !ctx.quick() {
            // thorough: EVERY n below 10^6 (primary spelling bare and in one context, one rotating variant)
            let mut n = 10_000 + w as u64;
            while n < 1_000_000 {
                if n % 4096 < nw as u64 && ctx.elapsed() > ctx.budget_s * 0.6 {
                    rep.count("exhaustive_enumeration_cut_by_budget");
                    break;
                }
                work(rep, &mut rng, n, n as usize, false);
                rep.count("exhaustive_range_numbers_10000_to_999999");
                n += nw as u64;
            }
        }
        let per_worker = n_random / nw as u64;
        for i in 0..per_worker {
            if i % 256 == 0 && ctx.over_budget() {
                rep.notes.push(format!("worker {} stopped the random part after {} numbers (time budget)", w, i));
                break;
            }
            let n = gen::random_number(&mut rng, 12);
            work(rep, &mut rng, n, i as usize, all_variants && i % 4 == 0);
        }
    });

    // replay the witnesses of known findings
    let ls = LangSet::new();
    for k in known_for(&findings, "C01") {
        for wj in &k.witnesses {
            let phrase = wj.str_of("phrase");
            let n = wj.get("n").and_then(|x| x.as_i64()).unwrap_or(0) as u64;
            let f = ["", "", "", ""];
            if judge_case(&ls, &k.language, n, &phrase, 0, &f, "", "").is_some() {
                println!("KNOWN-FINDING: property=C01 id={} {} (witness {:?} still fails)", k.id, k.what, phrase);
                rep.count("known_witness_still_failing");
            } else {
                println!("note: known finding {} no longer reproduces on witness {:?}", k.id, phrase);
                rep.notes.push(format!("known finding {} no longer reproduces on witness {:?}", k.id, phrase));
            }
        }
    }
    let rule = "cases = (language, spelled phrase, sentence context); numbers = every n in 0..9999 (thorough: every n below 10^6, counter exhaustive_range_numbers_10000_to_999999), each 3-digit group value in each of the 4 group positions (contexts rotated by seed), boundary shapes d*10^p+k, digit-biased random n < 10^12; phrase from the independent speller (primary + variants of DESIGN.md section 4); a case is non-trivial when the oracle compared validate/rewrite/occurrence against decimal(n); distinct = distinct (language, phrase, context) hashes";
    finish(
        ctx,
        rep,
        rule,
        &[
            "the spellers in harness/src/spell encode the standard spellings of DESIGN.md section 4; spellings outside that table are not judged",
            "German multipliers ending in 1 before Million/Milliarde (other than 'eine') are outside the speller domain",
            "filler words are self-checked against the running library at start-up",
        ],
        vec![],
    )
}

pub fn replay(case: &J) -> Vec<String> {
    let ls = LangSet::new();
    let code = case.str_of("lang");
    let n = case.get("n").and_then(|x| x.as_i64()).unwrap_or(0) as u64;
    let phrase = case.str_of("phrase");
    let cid = case.get("context").and_then(|x| x.as_i64()).unwrap_or(0) as usize;
    let fv: Vec<String> = case.get("fillers").and_then(|a| a.as_arr()).map(|a| a.iter().map(|x| x.as_str().unwrap_or("").to_string()).collect()).unwrap_or_default();
    let f: [&str; 4] = [
        fv.first().map(|s| s.as_str()).unwrap_or(""),
        fv.get(1).map(|s| s.as_str()).unwrap_or(""),
        fv.get(2).map(|s| s.as_str()).unwrap_or(""),
        fv.get(3).map(|s| s.as_str()).unwrap_or(""),
    ];
    let p = case.str_of("punct");
    let q = case.str_of("quote");
    let _ = core::Tier::Quick;
    judge_case(&ls, &code, n, &phrase, cid, &f, &p, &q).into_iter().collect()
}
