//! C02 Rewriting is local: tokenizer is lossless, rewrite == splice of the reported occurrences, number-free text
//! is returned identical; token streams: every input token is kept or handed exactly once, in order, to the
//! replacement constructor of the one occurrence covering it.

use crate::api::{IdTok, LANGS};
use crate::core::{finish, run_sharded, Ctx, Outcome};
use crate::gen;
use crate::jobj;
use crate::json::J;
use crate::rng::{hash_bytes, Rng};
use crate::streams::{self, gen_stream, StreamOpts};

use super::{splice, workload_text, LangSet, TEXT_THRESHOLDS};

pub fn check_text(ls: &LangSet, code: &str, s: &str, t: f64) -> (usize, Option<String>) {
    let api = ls.api(code);
    let (toks, occs) = api.scan_text(s, t);
    let concat: String = toks.iter().map(|t| t.text.as_str()).collect();
    if concat != s {
        return (occs.len(), Some(format!("(a) tokenizer is not lossless: concat(tokens) = {:?} for input {:?}", concat, s)));
    }
    let r = api.replace(s, t);
    match splice(&toks, &occs) {
        Err(e) => (occs.len(), Some(format!("(b) {} (occurrences {})", e, crate::api::show_occs(&occs)))),
        Ok(expected) => {
            if r != expected {
                (occs.len(), Some(format!("(b) replace_numbers_in_text({:?}, {}) = {:?} but splicing the reported occurrences {} gives {:?}", s, t, r, crate::api::show_occs(&occs), expected)))
            } else {
                (occs.len(), None)
            }
        }
    }
}

pub fn check_no_number(ls: &LangSet, code: &str, s: &str, t: f64) -> Option<String> {
    let api = ls.api(code);
    let (_toks, occs) = api.scan_text(s, t);
    if !occs.is_empty() {
        return Some(format!("(c) text without any number word yields occurrences {} : {:?}", crate::api::show_occs(&occs), s));
    }
    let r = api.replace(s, t);
    if r != s {
        return Some(format!("(c) text without any number word is not returned identical: {:?} -> {:?}", s, r));
    }
    None
}

pub fn check_stream(ls: &LangSet, code: &str, toks: &[IdTok], t: f64) -> (usize, Option<String>) {
    let api = ls.api(code);
    let occs = api.find(toks, t);
    let out = api.replace_stream(toks.to_vec(), t);
    // walk the output: kept tokens and replacement tokens must account for every input id exactly once, in order
    let mut next_in = 0usize; // index into toks
    let mut oi = 0usize; // index into occs
    for o in &out {
        if o.is_replacement {
            if oi >= occs.len() {
                return (occs.len(), Some(format!("stream: more replacement tokens than reported occurrences ({})", occs.len())));
            }
            let occ = &occs[oi];
            if occ.start != next_in {
                return (occs.len(), Some(format!("stream: replacement #{} appears at input position {} but its occurrence is {}", oi, next_in, occ.show())));
            }
            let want: Vec<u64> = toks[occ.start..occ.end.min(toks.len())].iter().map(|t| t.id).collect();
            if o.replaced != want {
                return (occs.len(), Some(format!("stream: Replace::replace for {} was handed token ids {:?}, expected exactly {:?} once and in order", occ.show(), o.replaced, want)));
            }
            if o.text != occ.text {
                return (occs.len(), Some(format!("stream: replacement text {:?} differs from the occurrence text {:?}", o.text, occ.text)));
            }
            next_in = occ.end;
            oi += 1;
        } else {
            if next_in >= toks.len() || *o != toks[next_in] {
                return (occs.len(), Some(format!("stream: output token {:?} is not the input token at position {} ({:?}) kept as is", o.show(), next_in, toks.get(next_in).map(|t| t.show()))));
            }
            if oi < occs.len() && next_in >= occs[oi].start {
                return (occs.len(), Some(format!("stream: input token #{} lies inside {} but was kept", next_in, occs[oi].show())));
            }
            next_in += 1;
        }
    }
    if next_in != toks.len() || oi != occs.len() {
        return (occs.len(), Some(format!("stream: output accounts for {} of {} input tokens and {} of {} occurrences", next_in, toks.len(), oi, occs.len())));
    }
    (occs.len(), None)
}

pub fn run(ctx: &Ctx) -> Outcome {
    let n_texts = ctx.n(500_000, 10_000_000);
    let n_streams = ctx.n(250_000, 5_000_000);
    let mut rep = run_sharded(ctx, |w, nw, rep| {
        let ls = LangSet::new();
        let mut rng = Rng::derive(ctx.seed, "C02", w as u64);
        // bounded exhaustive part: every stream of 1..4 (thorough 1..5) tokens over the small alphabet of each language, as a
        // caller token stream without whitespace tokens and as the text of its words joined by single spaces
        let (n_small, cut) = crate::streams::for_each_small_stream(&ls.lex, if ctx.quick() { 4 } else { 5 }, w, nw, &|| ctx.elapsed() > ctx.budget_s * 0.4, &mut |code, toks| {
            let s: String = toks.iter().map(|t| t.text.as_str()).collect::<Vec<_>>().join(" ");
            for &t in [0.0, 10.0].iter() {
                let (_n, fail) = check_text(&ls, code, &s, t);
                if let Some(msg) = fail {
                    rep.violation(&format!("{}:{}", code, &msg[..3]), jobj! {"kind" => "text", "lang" => code, "text" => s.as_str(), "threshold" => format!("{}", t)}, format!("[{} t={}] {}", code, t, msg));
                    break;
                }
                let (_n, fail) = check_stream(&ls, code, toks, t);
                if let Some(msg) = fail {
                    rep.violation(&format!("{}:stream", code), jobj! {"kind" => "stream", "lang" => code, "threshold" => format!("{}", t), "tokens" => crate::streams::stream_json(toks)}, format!("[{} t={}] {} | stream: {}", code, t, msg, crate::streams::show_stream(toks)));
                    break;
                }
            }
            rep.eval(hash_bytes(&[code.as_bytes(), b"x", s.as_bytes()]), true);
        });
        rep.add("exhaustive_small_alphabet_streams_and_texts", n_small);
        if cut {
            rep.count("exhaustive_enumeration_cut_by_budget");
        }
        for i in 0..(n_texts / nw as u64) {
            if i % 128 == 0 && ctx.elapsed() > ctx.budget_s * 0.6 {
                break;
            }
            let code = LANGS[(i % 7) as usize];
            let lex = ls.lexicon(code);
            if i % 10 == 9 {
                let s = gen::no_number_text(&mut rng, 30);
                crate::core::set_current(code, "replace_numbers_in_text", &s);
                rep.eval(hash_bytes(&[code.as_bytes(), b"nn", s.as_bytes()]), true);
                rep.count("number_free_texts");
                for &t in TEXT_THRESHOLDS.iter() {
                    if let Some(msg) = check_no_number(&ls, code, &s, t) {
                        rep.violation(&format!("{}:(c)", code), jobj! {"kind" => "no-number", "lang" => code, "text" => s.as_str(), "threshold" => format!("{}", t)}, format!("[{} t={}] {}", code, t, msg));
                        break;
                    }
                }
                continue;
            }
            let mut s = workload_text(&mut rng, lex, if i % 500 == 1 { 400 } else if i % 50 == 0 { 60 } else { 12 });
            if i % 1024 == 7 {
                let words = 1500 + rng.usize(2500);
                s = format!("{}{}", gen::long_filler_prefix(&mut rng, lex, words), s);
                rep.count("long_documents");
            }
            crate::core::set_current(code, "replace_numbers_in_text", &s);
            let mut max_occ = 0;
            for &t in TEXT_THRESHOLDS.iter() {
                let (n_occ, fail) = check_text(&ls, code, &s, t);
                max_occ = max_occ.max(n_occ);
                if let Some(msg) = fail {
                    rep.violation(&format!("{}:{}", code, &msg[..3]), jobj! {"kind" => "text", "lang" => code, "text" => s.as_str(), "threshold" => format!("{}", t)}, format!("[{} t={}] {}", code, t, msg));
                    break;
                }
            }
            if i % 8 == 0 {
                // polyglot process: the same text and threshold rewritten through the runtime-selectable value of every
                // other language first, then of this one: must be what the concrete type (judged above) returns
                let t = TEXT_THRESHOLDS[(i / 8 % TEXT_THRESHOLDS.len() as u64) as usize];
                let li = ls.idx(code);
                for (j, f) in ls.facades.iter().enumerate() {
                    if j != li {
                        std::hint::black_box(f.replace(&s, t).len());
                    }
                }
                let (rf, rc) = (ls.facades[li].replace(&s, t), ls.api(code).replace(&s, t));
                rep.count("polyglot_rewrites_compared");
                if rf != rc {
                    rep.violation(&format!("{}:polyglot", code), jobj! {"kind" => "polyglot", "lang" => code, "text" => s.as_str(), "threshold" => format!("{}", t)}, format!("[{} t={}] after the same text went through the other languages' runtime-selectable values, replace_numbers_in_text({:?}) through Language gives {:?} but the concrete type gives {:?}", code, t, s, rf, rc));
                }
            }
            rep.eval(hash_bytes(&[code.as_bytes(), s.as_bytes()]), true);
            if max_occ >= 2 {
                rep.count("texts_with_2_or_more_numbers");
            }
            if s.chars().any(|c| c.len_utf8() > 1) {
                rep.count("texts_with_multibyte_chars");
            }
            if max_occ >= 2 && rep.want_sample() && rng.chance(1, 3000) {
                rep.sample(jobj! {"lang" => code, "text" => s.as_str(), "rewritten_at_0" => ls.api(code).replace(&s, 0.0)});
            }
        }
        for i in 0..(n_streams / nw as u64) {
            if i % 128 == 0 && ctx.over_budget() {
                break;
            }
            let code = LANGS[(i % 7) as usize];
            let lex = ls.lexicon(code);
            // a third of the streams have no whitespace tokens (adjacent occurrences) and are long (8 and more occurrences)
            let opts = match i % 3 {
                0 => StreamOpts { ws_tokens: false, ..StreamOpts::hinted(40) },
                1 => StreamOpts::hinted(16),
                _ => StreamOpts { ws_tokens: false, sep_permille: 0, nan_permille: 0, ..StreamOpts::hinted(24) },
            };
            let toks = gen_stream(&mut rng, lex, &opts);
            crate::core::set_current(code, "replace_numbers_in_stream", &streams::show_stream(&toks));
            let mut n_occ = 0;
            for &t in [0.0, 10.0].iter() {
                let (n, fail) = check_stream(&ls, code, &toks, t);
                n_occ = n_occ.max(n);
                if let Some(msg) = fail {
                    rep.violation(&format!("{}:stream", code), jobj! {"kind" => "stream", "lang" => code, "threshold" => format!("{}", t), "tokens" => streams::stream_json(&toks)}, format!("[{} t={}] {} | stream: {}", code, t, msg, streams::show_stream(&toks)));
                    break;
                }
            }
            rep.eval(streams::stream_hash(code, &toks), n_occ > 0);
            rep.add("stream_occurrences_accounted", n_occ as u64);
            if n_occ >= 8 {
                rep.count("streams_with_8_or_more_occurrences");
            }
        }
    });
    if !ctx.quick() {
        super::legs::fuzz_leg(ctx, &mut rep, 45);
    }
    let rule = "bounded exhaustive: every stream of 1..4 (thorough 1..5) tokens over a 16/17-word alphabet per language, as caller stream and as text, thresholds 0 and 10 (counter exhaustive_small_alphabet_streams_and_texts); text form: hostile texts (noise words joined by varied separators, multi-byte salt, mutated vocabulary, linking sentences, annotator-state texts, some 60 words long) at thresholds 0,3,10,inf,NaN: concat(tokens)==input, rewrite == harness-side splice of find_numbers on the same annotated tokens; texts over an alphabet that cannot spell a number (CJK, emoji, Cyrillic, Greek, punctuation, digits) returned identical with no occurrence; stream form: hinted IdTok streams through replace_numbers_in_stream, ids kept or handed to Replace::replace exactly once in order, one replacement per reported occurrence; non-trivial = every text (the equality is checked on all of them) / streams with at least one occurrence";
    finish(ctx, rep, rule, &["tokens come from the crate's own tokenizer exported by hook H1 (feature verif-hooks)"], vec![])
}

pub fn replay(case: &J) -> Vec<String> {
    let ls = LangSet::new();
    let code = case.str_of("lang");
    let mut out = Vec::new();
    match case.str_of("kind").as_str() {
        "stream" => {
            let toks = streams::stream_from_json(case.get("tokens").unwrap_or(&J::Null));
            for t in [0.0, 10.0] {
                out.extend(check_stream(&ls, &code, &toks, t).1);
            }
        }
        "no-number" => {
            for &t in TEXT_THRESHOLDS.iter() {
                out.extend(check_no_number(&ls, &code, &case.str_of("text"), t));
            }
        }
        "polyglot" => {
            let s = case.str_of("text");
            let t: f64 = case.str_of("threshold").parse().unwrap_or(0.0);
            let li = ls.idx(&code);
            for (j, f) in ls.facades.iter().enumerate() {
                if j != li {
                    std::hint::black_box(f.replace(&s, t).len());
                }
            }
            let (rf, rc) = (ls.facades[li].replace(&s, t), ls.api(&code).replace(&s, t));
            if rf != rc {
                out.push(format!("after the other languages' runtime-selectable values: Language gives {:?}, the concrete type {:?}", rf, rc));
            }
        }
        _ => {
            for &t in TEXT_THRESHOLDS.iter() {
                out.extend(check_text(&ls, &code, &case.str_of("text"), t).1);
            }
        }
    }
    out
}
