//! C03 Totality: every public entry point returns for every input and never panics.
//!
//! Events observed: panic (caught with catch_unwind inside the worker), abort / signal / sanitizer report (seen by
//! the parent of a worker process), a call that does not return (watchdog thread inside the worker: bounded
//! progress, see DESIGN.md C03).  All workloads run in child processes so that a crash is an observation.

use std::panic::{catch_unwind, AssertUnwindSafe};
use std::process::Command;
use std::sync::{Arc, Mutex};
use std::time::Instant;

use crate::api::{IdTok, LANGS};
use crate::core::{finish, run_sharded, Ctx, Outcome, Report};
use crate::gen;
use crate::jobj;
use crate::json::{self, J};
use crate::lexicon::Lexicon;
use crate::rng::{hash_bytes, Rng};
use crate::spell;

use super::legs::{self, run_child};
use super::LangSet;

pub const THRESHOLDS: [f64; 8] = [0.0, 10.0, 5.5, -1.0, f64::INFINITY, f64::NEG_INFINITY, f64::NAN, 1e300];

/// slow-call limits of the restated bounded-progress property
const SLOW_FLAG_S: u64 = 30;
const SLOW_LIMIT_S: u64 = 150;

#[derive(Clone, Debug)]
pub enum Input {
    Text(String),
    /// deterministic large input: regenerated from its descriptor
    Big { class: String, size: usize },
}

impl Input {
    pub fn describe(&self) -> String {
        match self {
            Input::Text(s) => {
                if s.len() > 400 {
                    let mut e = 400;
                    while !s.is_char_boundary(e) {
                        e -= 1;
                    }
                    format!("{}…(+{} bytes)", &s[..e], s.len() - e)
                } else {
                    s.clone()
                }
            }
            Input::Big { class, size } => format!("<{} x {}>", class, size),
        }
    }
    pub fn to_json(&self) -> J {
        match self {
            Input::Text(s) => jobj! {"text" => s.as_str()},
            Input::Big { class, size } => jobj! {"big_class" => class.as_str(), "size" => *size},
        }
    }
    pub fn from_json(j: &J) -> Input {
        if let Some(c) = j.get("big_class").and_then(|x| x.as_str()) {
            Input::Big { class: c.to_string(), size: j.get("size").and_then(|x| x.as_i64()).unwrap_or(10) as usize }
        } else {
            Input::Text(j.str_of("text"))
        }
    }
    pub fn materialize(&self, code: &str) -> String {
        match self {
            Input::Text(s) => s.clone(),
            Input::Big { class, size } => big_input(code, class, *size),
        }
    }
}

pub const BIG_CLASSES: [&str; 11] = ["many-words", "many-numbers", "hyphen-chain", "compound", "dash-run", "space-run", "apostrophes", "digits-run", "zero-run", "scale-run", "plain-words"];

fn big_input(code: &str, class: &str, size: usize) -> String {
    let info = spell::info(code);
    let unit = info.digits[2];
    let tens = spell::cardinal(code, 20);
    match class {
        "many-words" => {
            let words = [spell::cardinal(code, 21), "xyz".to_string(), info.conj.to_string(), spell::cardinal(code, 1000), ",".to_string(), info.sep.to_string(), info.zero.to_string()];
            (0..size).map(|i| words[i % words.len()].as_str()).collect::<Vec<_>>().join(" ")
        }
        "many-numbers" => (0..size).map(|i| info.digits[i % 10]).collect::<Vec<_>>().join(" "),
        "hyphen-chain" => (0..size).map(|i| if i % 2 == 0 { tens.as_str() } else { unit }).collect::<Vec<_>>().join("-"),
        "compound" => {
            // one long glued word made of splitter patterns and number morphemes
            let parts: Vec<String> = match code {
                "de" => vec!["ein".into(), "und".into(), "zwanzig".into(), "tausend".into(), "hundert".into()],
                "nl" => vec!["een".into(), "en".into(), "twintig".into(), "duizend".into(), "honderd".into()],
                "it" => vec!["venti".into(), "due".into(), "mila".into(), "cento".into(), "ttanta".into()],
                _ => vec![unit.to_string(), tens.clone()],
            };
            let mut s = String::new();
            let mut i = 0;
            while s.chars().count() < size {
                s.push_str(&parts[i % parts.len()]);
                i += 1;
            }
            s
        }
        // one number made of `size` dictated zeros and a digit; one phrase of `size` scale words
        "zero-run" => format!("{} {}", vec![info.zero; size].join(" "), unit),
        "scale-run" => {
            let scale = spell::cardinal(code, 1000).split(' ').last().unwrap_or("").to_string();
            format!("{} {}", unit, vec![scale.as_str(); size].join(" "))
        }
        // a long stretch with no number at all (twenty times the nominal size, at most 600 000 words: it is cheap, and a frame of recursion per token only shows at such lengths), one number at the very end
        "plain-words" => format!("{} {}", vec!["xyz"; (size * 20).min(600_000)].join(" "), unit),
        "dash-run" => "-".repeat(size),
        "space-run" => " \t\u{a0}".repeat(size / 3 + 1),
        "apostrophes" => format!("{}{}", "l'".repeat(size / 2), unit),
        _ => "9".repeat(size),
    }
}

const DEGENERATE: [&str; 26] = [
    "", " ", "   ", "\t", "\n", "\u{a0}", "-", "--", "- -", " - ", "'", "''", ".", "...", ",", "!?", "\u{0}", "\u{0}\u{0}", "\u{feff}", "\u{200b}", "\u{202e}", "-'-", "e\u{301}", "\u{301}", "😀", "日本語",
];

fn random_utf8(rng: &mut Rng) -> String {
    let n = rng.usize(24);
    let bytes: Vec<u8> = (0..n).map(|_| rng.below(256) as u8).collect();
    String::from_utf8_lossy(&bytes).into_owned()
}

pub fn gen_input(rng: &mut Rng, lex: &Lexicon, allow_big: bool, big_max: usize) -> Input {
    match rng.below(100) {
        0..=54 => Input::Text(gen::hostile_text(rng, lex, 14)),
        55..=64 => Input::Text(rng.pick_str(&DEGENERATE).to_string()),
        65..=72 => Input::Text(random_utf8(rng)),
        73..=80 => {
            // vocabulary glued with separators that are word characters
            let k = 1 + rng.usize(5);
            let mut s = String::new();
            for i in 0..k {
                if i > 0 {
                    s.push_str(rng.pick_str(&["-", "'", "--", "-'", ""]));
                }
                s.push_str(rng.pick(&lex.number_words).as_str());
            }
            Input::Text(s)
        }
        81..=90 => Input::Text(gen::linking_sentence(rng, lex, 12)),
        91..=96 => Input::Text(gen::no_number_text(rng, 20)),
        _ => {
            // 3% long inputs; one in ten of them is a deterministic large input (replace_numbers_in_text is
            // quadratic in the number of occurrences, so the very large ones are rationed)
            if allow_big && rng.chance(1, 10) {
                let class = rng.pick_str(&BIG_CLASSES).to_string();
                let size = match rng.below(8) {
                    0 => big_max / 5,
                    1 => big_max / 20,
                    _ => 10 + rng.usize(big_max / 100 + 1),
                };
                Input::Big { class, size: size.max(1) }
            } else {
                Input::Text(gen::hostile_text(rng, lex, 120))
            }
        }
    }
}

/// Call every public entry point on one input.  A panic propagates to the caller; a semantic failure is returned.
pub fn exercise(api: &dyn crate::api::Api, s: &str, t: f64, rng_bits: u64) -> Option<String> {
    let v = api.validate(s);
    if !s.chars().any(|c| c.is_alphanumeric()) && v.is_ok() {
        return Some(format!("text2digits({:?}) = {:?}: text without any letter or digit validated as a number", s, v));
    }
    let r = api.replace(s, t);
    let (_toks, occs) = api.scan_text(s, t);
    std::hint::black_box((&r, &occs));
    // caller-made tokens: split on whitespace, lower-case copy sometimes NOT lower-case, random hints
    let mut toks: Vec<IdTok> = Vec::new();
    // (the stream entry points are quadratic in the number of occurrences: cap the stream unless the text has few of them)
    let cap = if occs.len() < 100 { 1_000_000 } else { 20_000 };
    for (i, w) in s.split_whitespace().take(cap).enumerate() {
        let mut tk = IdTok::new(i as u64, w);
        let bits = rng_bits.rotate_left((i % 61) as u32);
        if bits & 7 == 0 {
            tk.lower = w.to_string();
        }
        if bits & 0x30 == 0x30 {
            tk.sep = true;
        }
        if bits & 0x700 == 0x700 {
            tk.nan = true;
        }
        toks.push(tk);
    }
    let batch = api.find(&toks, t);
    let (_b, steps) = api.find_iter_steps(&toks, t, 1);
    let out = api.replace_stream(toks.clone(), t);
    let mut ann = toks;
    api.annotate(&mut ann);
    std::hint::black_box((&batch, &steps, &out, &ann));
    let head: String = s.chars().take(12).collect();
    std::hint::black_box(text2num::get_interpreter_for(&head).is_some());
    std::hint::black_box(text2num::get_interpreter_for(s.trim()).is_some());
    None
}

struct Slot {
    start: Option<Instant>,
    lang: String,
    threshold: f64,
    input: Option<Input>,
}

/// The workload of one worker process.
pub fn workload(ctx: &Ctx, n_cases: u64, allow_big: bool, big_max: usize, trace_dir: Option<String>, label: &str) -> Report {
    let slots: Arc<Vec<Mutex<Slot>>> = Arc::new((0..ctx.threads.max(1)).map(|_| Mutex::new(Slot { start: None, lang: String::new(), threshold: 0.0, input: None })).collect());
    // watchdog: bounded progress
    let wd_slots = slots.clone();
    let wd_out = std::env::var("T2N_C03_SLOW_FILE").ok();
    std::thread::spawn(move || loop {
        std::thread::sleep(std::time::Duration::from_millis(500));
        for sl in wd_slots.iter() {
            let g = sl.lock().unwrap();
            if let (Some(st), Some(inp)) = (g.start, &g.input) {
                let el = st.elapsed().as_secs();
                if el >= SLOW_LIMIT_S {
                    // the call has not returned: write the witness and stop the process
                    if let Some(path) = &wd_out {
                        let j = jobj! {"kind" => "no-return", "lang" => g.lang.as_str(), "threshold" => format!("{}", g.threshold), "input" => inp.to_json(), "elapsed_s" => el};
                        let _ = std::fs::write(path, j.to_string());
                    }
                    std::process::exit(97);
                }
                let _ = SLOW_FLAG_S;
            }
        }
    });
    let slots2 = slots.clone();
    run_sharded(ctx, move |w, nw, rep| {
        let ls = LangSet::new();
        let mut rng = Rng::derive(ctx.seed, label, w as u64);
        // deterministic pass: every large-input class at the top size, in three languages, spread over the workers
        let mut top: Vec<(usize, &str, &str)> = Vec::new();
        if allow_big {
            for (ci, class) in BIG_CLASSES.iter().enumerate() {
                for (li, code) in ["en", "de", "it", "nl", "fr"].iter().enumerate() {
                    top.push((ci * 5 + li, class, code));
                }
            }
        }
        let n_top = top.iter().filter(|(k, _, _)| k % nw == w).count() as u64;
        for i in 0..(n_cases / nw as u64 + n_top) {
            if i % 256 == 0 && ctx.over_budget() {
                rep.notes.push(format!("worker {} stopped after {} cases (time budget)", w, i));
                break;
            }
            let mut code = LANGS[(i % 7) as usize];
            let lex = ls.lexicon(code);
            let mut input = gen_input(&mut rng, lex, allow_big, big_max);
            if i < n_top {
                let (_, class, c) = top.iter().filter(|(k, _, _)| k % nw == w).nth(i as usize).unwrap();
                code = c;
                input = Input::Big { class: class.to_string(), size: big_max };
            }
            let t = *rng.pick(&THRESHOLDS);
            let bits = rng.next_u64();
            let s = input.materialize(code);
            if let Some(dir) = &trace_dir {
                let j = jobj! {"lang" => code, "threshold" => format!("{}", t), "input" => input.to_json(), "bits" => bits as i64};
                let _ = std::fs::write(format!("{}/crumb-{}.json", dir, w), j.to_string());
            }
            {
                let mut g = slots2[w].lock().unwrap();
                g.start = Some(Instant::now());
                g.lang = code.to_string();
                g.threshold = t;
                g.input = Some(if s.len() <= 2000 { Input::Text(s.clone()) } else { input.clone() });
            }
            let t0 = Instant::now();
            let res = catch_unwind(AssertUnwindSafe(|| exercise(ls.api(code), &s, t, bits)));
            let ms = t0.elapsed().as_millis() as u64;
            slots2[w].lock().unwrap().start = None;
            rep.eval(hash_bytes(&[code.as_bytes(), s.as_bytes(), &t.to_bits().to_le_bytes()]), true);
            rep.max("max_case_ms", ms);
            if let Input::Big { class, size } = &input {
                rep.count(&format!("big:{}", class));
                rep.max("max_big_size", *size as u64);
                rep.max("max_big_case_ms", ms);
            }
            if s.is_empty() || s.chars().all(|c| c.is_whitespace()) {
                rep.count("empty_or_whitespace_only_inputs");
            }
            if !t.is_finite() {
                rep.count("non_finite_threshold_cases");
            }
            match res {
                Ok(None) => {
                    if rep.want_sample() && rng.chance(1, 30000) {
                        rep.sample(jobj! {"lang" => code, "threshold" => format!("{}", t), "input" => input.describe()});
                    }
                }
                Ok(Some(msg)) => rep.violation(&format!("semantic:{}", code), jobj! {"kind" => "case", "lang" => code, "threshold" => format!("{}", t), "input" => input.to_json(), "bits" => bits as i64}, format!("[{} t={}] {}", code, t, msg)),
                Err(_) => {
                    let (loc, msg) = crate::core::take_last_panic().unwrap_or(("?".into(), "?".into()));
                    rep.violation(
                        &format!("panic:{}", loc),
                        jobj! {"kind" => "case", "lang" => code, "threshold" => format!("{}", t), "input" => input.to_json(), "bits" => bits as i64, "panic_location" => loc.as_str(), "panic_message" => msg.as_str()},
                        format!("[{} t={}] an entry point panicked at {}: {} on input {:?}", code, t, loc, msg, input.describe()),
                    );
                }
            }
        }
    })
}

fn parse_threshold(s: &str) -> f64 {
    match s {
        "NaN" => f64::NAN,
        "inf" => f64::INFINITY,
        "-inf" => f64::NEG_INFINITY,
        other => other.parse().unwrap_or(0.0),
    }
}

/// run exactly one recorded case (used by --replay and by crash triage)
pub fn run_one(case: &J) -> Vec<String> {
    let ls = LangSet::new();
    let code = case.str_of("lang");
    let input = Input::from_json(case.get("input").unwrap_or(&J::Null));
    let t = parse_threshold(&case.str_of("threshold"));
    let bits = case.get("bits").and_then(|x| x.as_i64()).unwrap_or(0) as u64;
    let s = input.materialize(&code);
    match catch_unwind(AssertUnwindSafe(|| exercise(ls.api(&code), &s, t, bits))) {
        Ok(None) => vec![],
        Ok(Some(m)) => vec![m],
        Err(_) => {
            let (loc, msg) = crate::core::take_last_panic().unwrap_or(("?".into(), "?".into()));
            vec![format!("an entry point panicked at {}: {}", loc, msg)]
        }
    }
}

/// child-process entry: `worker c03 <seed> <n_cases> <big 0|1> <big_max> <trace_dir|-> <label> <result_file>`
/// or `worker c03-one <case_file>` (exit 0 = returned without panic, 1 = failure reported)
pub fn worker(args: &[String]) -> i32 {
    let seed: u64 = args.first().and_then(|s| s.parse().ok()).unwrap_or(1);
    let n: u64 = args.get(1).and_then(|s| s.parse().ok()).unwrap_or(1000);
    let big = args.get(2).map(|s| s == "1").unwrap_or(false);
    let big_max: usize = args.get(3).and_then(|s| s.parse().ok()).unwrap_or(10_000);
    let trace = args.get(4).filter(|s| s.as_str() != "-").cloned();
    let label = args.get(5).cloned().unwrap_or_else(|| "C03".into());
    let out = args.get(6).cloned().unwrap_or_default();
    let ctx = legs::child_ctx("C03", seed);
    let rep = workload(&ctx, n, big, big_max, trace, &label);
    legs::write_child_report(&out, &rep)
}

/// Light input generator for the Miri slices (no lexicon: building one costs minutes under the interpreter).
fn light_input(rng: &mut Rng, code: &str) -> Input {
    let word = |rng: &mut Rng| -> String {
        match rng.below(8) {
            0 => spell::cardinal(code, rng.below(100)),
            1 => spell::cardinal(code, gen::random_number(rng, 6)),
            2 => {
                let os = spell::ordinals(code, 1 + rng.below(120));
                os[rng.usize(os.len())].text.clone()
            }
            3 => spell::info(code).conj.to_string(),
            4 => spell::info(code).sep.to_string(),
            5 => rng.pick_str(&DEGENERATE).to_string(),
            6 => rng.pick_str(&["é", "ß", "İ", "日本語", "😀", "e\u{301}", "\u{0}", "xyz", "l'", "١٢"]).to_string(),
            _ => spell::info(code).zero.to_string(),
        }
    };
    match rng.below(10) {
        0 => Input::Text(rng.pick_str(&DEGENERATE).to_string()),
        1 => Input::Text(random_utf8(rng)),
        2 => Input::Big { class: "compound".into(), size: 20 + rng.usize(60) },
        3 => Input::Big { class: rng.pick_str(&["hyphen-chain", "apostrophes", "dash-run", "many-numbers"]).to_string(), size: 2 + rng.usize(8) },
        _ => {
            let k = 1 + rng.usize(5);
            let mut s = String::new();
            for i in 0..k {
                if i > 0 {
                    s.push_str(rng.pick_str(&[" ", " ", ", ", "-", "\u{a0}", ". ", "'"]));
                }
                s.push_str(&word(rng));
            }
            Input::Text(s)
        }
    }
}

/// child entry under Miri: `worker c03-miri <seed> <n_cases> <crumb_dir> <result_file>` (single-threaded, two
/// interpreters per process: one with a splitter automaton (de/it/nl, reaches daachorse's unsafe code) and one without)
pub fn worker_miri(args: &[String]) -> i32 {
    let seed: u64 = args.first().and_then(|s| s.parse().ok()).unwrap_or(1);
    let n: u64 = args.get(1).and_then(|s| s.parse().ok()).unwrap_or(50);
    let dir = args.get(2).cloned().unwrap_or_default();
    let out = args.get(3).cloned().unwrap_or_default();
    let label = args.get(4).cloned().unwrap_or_else(|| "miri".to_string());
    let codes = [["de", "it", "nl"][(seed % 3) as usize], ["en", "fr", "es", "pt"][(seed / 3 % 4) as usize]];
    let apis = [crate::api::concrete(codes[0]), crate::api::concrete(codes[1])];
    let mut rng = Rng::derive(seed, "C03-miri", 0);
    let mut rep = Report::new();
    for i in 0..n {
        let which = if i % 3 == 2 { 1 } else { 0 };
        let code = codes[which];
        let input = light_input(&mut rng, code);
        let t = *rng.pick(&THRESHOLDS);
        let bits = rng.next_u64();
        let s = input.materialize(code);
        let j = jobj! {"lang" => code, "threshold" => format!("{}", t), "input" => input.to_json(), "bits" => bits as i64};
        let _ = std::fs::write(format!("{}/crumb-0.json", dir), j.to_string());
        let res = catch_unwind(AssertUnwindSafe(|| exercise(apis[which].as_ref(), &s, t, bits)));
        rep.eval(hash_bytes(&[code.as_bytes(), s.as_bytes(), &t.to_bits().to_le_bytes()]), true);
        rep.count(&format!("{}_cases_{}", label, code));
        match res {
            Ok(None) => {}
            Ok(Some(msg)) => rep.violation(&format!("semantic:{}", code), jobj! {"kind" => "case", "lang" => code, "threshold" => format!("{}", t), "input" => input.to_json(), "bits" => bits as i64}, format!("[{} t={}] {}", code, t, msg)),
            Err(_) => {
                let (loc, msg) = crate::core::take_last_panic().unwrap_or(("?".into(), "?".into()));
                rep.violation(&format!("panic:{}", loc), jobj! {"kind" => "case", "lang" => code, "threshold" => format!("{}", t), "input" => input.to_json(), "bits" => bits as i64}, format!("[{} t={}] an entry point panicked at {}: {} on input {:?}", code, t, loc, msg, input.describe()));
            }
        }
    }
    legs::write_child_report(&out, &rep)
}

pub fn worker_one(args: &[String]) -> i32 {
    let path = args.first().cloned().unwrap_or_default();
    let case = match std::fs::read_to_string(&path).ok().and_then(|s| json::parse(&s).ok()) {
        Some(c) => c,
        None => return 2,
    };
    let fails = run_one(&case);
    for f in &fails {
        println!("FAIL {}", f);
    }
    if fails.is_empty() {
        0
    } else {
        1
    }
}

struct LegSpec<'a> {
    name: &'a str,
    /// None = this very binary (release leg)
    env_var: Option<&'a str>,
    n_cases: u64,
    big: bool,
    big_max: usize,
    timeout_s: u64,
}

fn crash_description(r: &legs::ChildResult) -> String {
    let err = String::from_utf8_lossy(&r.stderr);
    let tail: String = err.lines().filter(|l| !l.trim().is_empty()).rev().take(6).collect::<Vec<_>>().into_iter().rev().collect::<Vec<_>>().join(" | ");
    format!("exit {:?} signal {:?}; stderr tail: {}", r.exit_code, r.signal, tail.chars().take(600).collect::<String>())
}

/// run one leg in a child process; a crash of the child is triaged to a single witness case
fn run_leg(ctx: &Ctx, rep: &mut Report, spec: &LegSpec) {
    let bin = match spec.env_var {
        None => std::env::current_exe().map(|p| p.to_string_lossy().into_owned()).unwrap_or_default(),
        Some(v) => {
            if let Ok(e) = std::env::var(format!("{}_ERROR", v)) {
                rep.inconclusive.push(format!("leg={} reason={}", spec.name, e));
                return;
            }
            match std::env::var(v) {
                Ok(b) if !b.is_empty() => b,
                _ => {
                    rep.notes.push(format!("leg {} not requested for this run", spec.name));
                    return;
                }
            }
        }
    };
    let tmp = format!("{}/harness/target/c03-{}-{}", ctx.verif_dir, spec.name, std::process::id());
    let _ = std::fs::create_dir_all(&tmp);
    let result = format!("{}/report.json", tmp);
    let slow = format!("{}/slow.json", tmp);
    let mk = |trace: bool| -> Command {
        let mut c = Command::new(&bin);
        c.args(["worker", "c03", &ctx.seed.to_string(), &spec.n_cases.to_string(), if spec.big { "1" } else { "0" }, &spec.big_max.to_string(), if trace { tmp.as_str() } else { "-" }, &format!("C03-{}", spec.name), &result]);
        c.env("VERIF_STACK_MB", "8");
        c.env("VERIF_DIR", &ctx.verif_dir).env("T2N_C03_SLOW_FILE", &slow).env("VERIF_CHILD_BUDGET_S", format!("{}", spec.timeout_s.saturating_sub(30).max(20)));
        c.env("ASAN_OPTIONS", "halt_on_error=1:abort_on_error=1:detect_leaks=0");
        c
    };
    let _ = std::fs::remove_file(&result);
    let r = run_child(&mut mk(false), spec.timeout_s + SLOW_LIMIT_S);
    if !r.started {
        rep.inconclusive.push(format!("leg={} reason=cannot start {}", spec.name, bin));
        return;
    }
    if let Some(j) = std::fs::read_to_string(&result).ok().and_then(|s| json::parse(&s).ok()) {
        legs::merge_child_json(rep, spec.name, &j);
        rep.add(&format!("leg_{}_wall_ms", spec.name), (r.wall_s * 1000.0) as u64);
        let _ = std::fs::remove_dir_all(&tmp);
        return;
    }
    // no report: the child died or was killed
    if r.exit_code == Some(97) {
        if let Some(j) = std::fs::read_to_string(&slow).ok().and_then(|s| json::parse(&s).ok()) {
            rep.violation(&format!("no-return:{}", spec.name), j.clone(), format!("[leg {}] a call did not return within {} s (normal: < 50 ms): {}", spec.name, SLOW_LIMIT_S, j.to_string().chars().take(300).collect::<String>()));
            let _ = std::fs::remove_dir_all(&tmp);
            return;
        }
    }
    if r.timed_out || r.signal == Some(9) {
        rep.inconclusive.push(format!("leg={} reason=worker killed by the outer watchdog or the OOM killer ({})", spec.name, crash_description(&r)));
        let _ = std::fs::remove_dir_all(&tmp);
        return;
    }
    // crash: re-run with a breadcrumb per case, then try each breadcrumb alone
    let crash = crash_description(&r);
    let r2 = run_child(&mut mk(true), spec.timeout_s * 3 + SLOW_LIMIT_S);
    let mut witness: Option<J> = None;
    if let Ok(rd) = std::fs::read_dir(&tmp) {
        for e in rd.flatten() {
            let p = e.path();
            if p.file_name().map(|n| n.to_string_lossy().starts_with("crumb-")).unwrap_or(false) {
                let mut c = Command::new(&bin);
                c.args(["worker", "c03-one", &p.to_string_lossy()]);
                c.env("ASAN_OPTIONS", "halt_on_error=1:abort_on_error=1:detect_leaks=0");
                let r3 = run_child(&mut c, 200);
                if r3.started && !r3.timed_out && r3.exit_code != Some(0) && r3.exit_code != Some(2) {
                    if let Some(mut j) = std::fs::read_to_string(&p).ok().and_then(|s| json::parse(&s).ok()) {
                        j.set("kind", "case");
                        j.set("crash", crash_description(&r3));
                        witness = Some(j);
                        break;
                    }
                }
            }
        }
    }
    match witness {
        Some(j) => rep.violation(&format!("crash:{}", spec.name), j.clone(), format!("[leg {}] the worker process crashed ({}); single-case witness: {}", spec.name, crash, j.to_string().chars().take(400).collect::<String>())),
        None => {
            if r2.exit_code == Some(0) {
                rep.inconclusive.push(format!("leg={} reason=worker crashed once ({}) but the traced re-run completed: not reproducible", spec.name, crash));
            } else {
                rep.violation(
                    &format!("crash:{}", spec.name),
                    jobj! {"kind" => "leg-crash", "leg" => spec.name, "seed" => ctx.seed, "n_cases" => spec.n_cases, "big" => spec.big, "big_max" => spec.big_max},
                    format!("[leg {}] the worker process crashed twice ({}); no single-case witness isolated, re-run the leg with the recorded seed", spec.name, crash),
                );
            }
        }
    }
    let _ = std::fs::remove_dir_all(&tmp);
}

fn miri_slices(ctx: &Ctx, rep: &mut Report, n_procs: usize, cases_per_proc: u64, timeout_s: u64) {
    let dir = match std::env::var("T2N_LEG_MIRI_DIR") {
        Ok(d) if !d.is_empty() => d,
        _ => {
            rep.notes.push("leg miri not requested for this run".into());
            return;
        }
    };
    let tmp = format!("{}/harness/target/c03-miri-{}", ctx.verif_dir, std::process::id());
    let _ = std::fs::create_dir_all(&tmp);
    let handles: Vec<_> = (0..n_procs)
        .map(|p| {
            let dir = dir.clone();
            let tmp = tmp.clone();
            let seed = ctx.seed.wrapping_add(1000 + p as u64);
            let verif_dir = ctx.verif_dir.clone();
            std::thread::spawn(move || {
                let pdir = format!("{}/p{}", tmp, p);
                let _ = std::fs::create_dir_all(&pdir);
                let result = format!("{}/report.json", pdir);
                let mut c = Command::new("cargo");
                c.current_dir(&dir);
                c.args(["+nightly", "miri", "run", "--offline", "--quiet", "--bin", "t2n-verif", "--", "worker", "c03-miri", &seed.to_string(), &cases_per_proc.to_string(), &pdir, &result]);
                c.env("MIRIFLAGS", "-Zmiri-disable-isolation").env("VERIF_THREADS", "1").env("VERIF_DIR", &verif_dir).env("CARGO_NET_OFFLINE", "true").env("VERIF_CHILD_BUDGET_S", format!("{}", timeout_s.saturating_sub(90)));
                c.env("CARGO_TARGET_DIR", format!("{}/target-miri", dir));
                let r = run_child(&mut c, timeout_s);
                (p, pdir, result, r)
            })
        })
        .collect();
    let mut ok_procs = 0;
    for h in handles {
        let (p, pdir, result, r) = match h.join() {
            Ok(x) => x,
            Err(_) => continue,
        };
        let name = format!("miri{}", p);
        if !r.started {
            rep.inconclusive.push(format!("leg={} reason=cannot start cargo miri", name));
            continue;
        }
        if let Some(j) = std::fs::read_to_string(&result).ok().and_then(|s| json::parse(&s).ok()) {
            legs::merge_child_json(rep, "miri", &j);
            ok_procs += 1;
            continue;
        }
        let err = String::from_utf8_lossy(&r.stderr).to_string();
        if r.timed_out {
            rep.inconclusive.push(format!("leg={} reason=outer watchdog of {} s fired", name, timeout_s));
        } else if err.contains("Undefined Behavior") || err.contains("unsupported operation") && err.contains("text2num") || err.contains("Data race") {
            let crumb = std::fs::read_to_string(format!("{}/crumb-0.json", pdir)).ok().and_then(|s| json::parse(&s).ok()).unwrap_or(J::obj());
            let mut case = crumb.clone();
            case.set("kind", "case");
            case.set("leg", "miri");
            let first: String = err.lines().filter(|l| l.contains("error") || l.contains("Undefined")).take(3).collect::<Vec<_>>().join(" | ");
            rep.violation(&format!("miri:{}", first.chars().take(80).collect::<String>()), case, format!("[leg miri] the interpreter reported: {} ; case in progress: {}", first, crumb.to_string().chars().take(300).collect::<String>()));
        } else {
            rep.inconclusive.push(format!("leg={} reason=no report ({})", name, crash_description(&r)));
        }
    }
    rep.add("leg_miri_processes_completed", ok_procs);
    let _ = std::fs::remove_dir_all(&tmp);
}

/// valgrind memcheck over the light worker of the release binary: uninitialised reads and invalid accesses inside the
/// dependencies' unsafe code (the automaton of the de/it/nl splitters) that ASan's red zones do not cover
fn memcheck_slices(ctx: &Ctx, rep: &mut Report, n_procs: usize, cases_per_proc: u64, timeout_s: u64) {
    let exe = match std::env::current_exe() {
        Ok(e) => e,
        Err(_) => {
            rep.inconclusive.push("leg=memcheck reason=cannot locate the runner binary".into());
            return;
        }
    };
    let tmp = format!("{}/harness/target/c03-memcheck-{}", ctx.verif_dir, std::process::id());
    let _ = std::fs::create_dir_all(&tmp);
    let handles: Vec<_> = (0..n_procs)
        .map(|p| {
            let tmp = tmp.clone();
            let exe = exe.clone();
            let seed = ctx.seed.wrapping_add(5000 + p as u64);
            std::thread::spawn(move || {
                let pdir = format!("{}/p{}", tmp, p);
                let _ = std::fs::create_dir_all(&pdir);
                let result = format!("{}/report.json", pdir);
                let mut c = Command::new("valgrind");
                c.args(["-q", "--error-exitcode=97", "--leak-check=no", "--track-origins=no"]);
                c.arg(&exe);
                c.args(["worker", "c03-miri", &seed.to_string(), &cases_per_proc.to_string(), &pdir, &result, "memcheck"]);
                c.env("VERIF_THREADS", "1");
                let r = run_child(&mut c, timeout_s);
                (p, pdir, result, r)
            })
        })
        .collect();
    let mut ok_procs = 0;
    for h in handles {
        let (p, pdir, result, r) = match h.join() {
            Ok(x) => x,
            Err(_) => continue,
        };
        let name = format!("memcheck{}", p);
        if !r.started {
            rep.inconclusive.push(format!("leg={} reason=cannot start valgrind", name));
            continue;
        }
        let err = String::from_utf8_lossy(&r.stderr).to_string();
        let reported = r.exit_code == Some(97) || err.contains("Invalid read") || err.contains("Invalid write") || err.contains("uninitialised");
        if reported {
            let crumb = std::fs::read_to_string(format!("{}/crumb-0.json", pdir)).ok().and_then(|s| json::parse(&s).ok()).unwrap_or(J::obj());
            let mut case = crumb.clone();
            case.set("kind", "case");
            case.set("leg", "memcheck");
            let first: String = err.lines().filter(|l| l.starts_with("==")).take(6).collect::<Vec<_>>().join(" | ");
            rep.violation(&format!("memcheck:{}", first.chars().filter(|c| !c.is_ascii_digit()).take(80).collect::<String>()), case, format!("[leg memcheck] valgrind reported: {} ; last case started: {}", first, crumb.to_string().chars().take(300).collect::<String>()));
            continue;
        }
        if let Some(j) = std::fs::read_to_string(&result).ok().and_then(|s| json::parse(&s).ok()) {
            legs::merge_child_json(rep, "memcheck", &j);
            ok_procs += 1;
        } else if r.timed_out {
            rep.inconclusive.push(format!("leg={} reason=outer watchdog of {} s fired", name, timeout_s));
        } else {
            rep.inconclusive.push(format!("leg={} reason=no report ({})", name, crash_description(&r)));
        }
    }
    rep.add("leg_memcheck_processes_completed", ok_procs);
    let _ = std::fs::remove_dir_all(&tmp);
}

pub fn run(ctx: &Ctx) -> Outcome {
    let mut rep = Report::new();
    let q = ctx.quick();
    run_leg(ctx, &mut rep, &LegSpec { name: "release", env_var: None, n_cases: ctx.n(800_000, 12_000_000), big: true, big_max: if q { 30_000 } else { 100_000 }, timeout_s: if q { 70 } else { 400 } });
    run_leg(ctx, &mut rep, &LegSpec { name: "debug", env_var: Some("T2N_LEG_DEBUG"), n_cases: ctx.n(100_000, 1_000_000), big: true, big_max: 20_000, timeout_s: if q { 60 } else { 300 } });
    if !q {
        run_leg(ctx, &mut rep, &LegSpec { name: "asan", env_var: Some("T2N_LEG_ASAN"), n_cases: ctx.n(0, 1_000_000), big: true, big_max: 50_000, timeout_s: 400 });
        miri_slices(ctx, &mut rep, 16, 150, 900);
    }
    memcheck_slices(ctx, &mut rep, if q { 4 } else { 16 }, if q { 1500 } else { 20_000 }, if q { 120 } else { 600 });
    if !q {
        legs::fuzz_leg(ctx, &mut rep, 60);
    }
    // the release leg is never skippable
    if rep.counters.get("leg_release_evaluations").copied().unwrap_or(0) == 0 && rep.violations.is_empty() {
        rep.harness_errors.push("the release leg produced no report".into());
    }
    rep.sample(jobj! {"degenerate_inputs_always_included" => J::Arr(DEGENERATE.iter().take(12).map(|s| J::from(*s)).collect()), "big_classes" => J::Arr(BIG_CLASSES.iter().map(|s| J::from(*s)).collect())});
    let rule = "cases = (language, input text, threshold in {0,10,5.5,-1,+inf,-inf,NaN,1e300}); inputs: hostile text 55%, degenerate strings (empty, whitespace-only, hyphen-only, NUL, combining marks...) 10%, random bytes decoded lossily 8%, vocabulary glued with - and ' 8%, linking sentences 10%, number-free scripts 6%, large inputs 3% (up to 10^5 words / 10^5-part hyphen chains / 10^5-char compounds for the de/it/nl splitter); every case calls text2digits, replace_numbers_in_text, find_numbers, find_numbers_iter to exhaustion and twice beyond, replace_numbers_in_stream and basic_annotate on caller tokens with hints and a non-lower-case lowercase copy, get_interpreter_for; additionally text without a letter or digit must not validate; each leg (release, debug profile, valgrind memcheck slices of small cases, and in the thorough tier ASan and Miri slices) runs in child processes so that aborts, signals, sanitizer reports and non-returning calls are observed; distinct = distinct (language, input, threshold) hashes summed over the legs";
    finish(
        ctx,
        rep,
        rule,
        &[
            "termination is restated as bounded progress: a call on an input of at most 10^5 tokens that has not returned after 150 s (normal < 50 ms) is a violation; a worker killed by the outer watchdog or by the OOM killer is inconclusive",
            "Miri cannot be run at volume (about 10^4 x slower): 16 single-threaded processes x 150 small cases in the thorough tier, each with one splitter-automaton language (de/it/nl) and one other",
        ],
        vec![],
    )
}

pub fn replay(case: &J) -> Vec<String> {
    if case.str_of("kind") == "leg-crash" {
        return vec!["leg-level crash record: re-run ./check C03 thorough with the recorded seed".into()];
    }
    run_one(case)
}
