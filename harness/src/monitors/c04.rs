//! C04 Ordinal round-trip: reference-model monitor with independent ordinal spellers.

use crate::api::LANGS;
use crate::core::{attribution_exact, finish, known_for, load_findings, run_sharded, Ctx, Finding, Outcome, Report};
use crate::jobj;
use crate::json::J;
use crate::lexicon::{PUNCT_AFTER, PUNCT_BEFORE};
use crate::rng::{hash_bytes, Rng};
use crate::spell;

use super::{in_context, judge_roundtrip, pick_fillers, LangSet, CONTEXT_NAMES, N_CONTEXTS};

pub const KIND: &str = "ordinal-roundtrip";

pub fn judge_case(ls: &LangSet, code: &str, n: u64, phrase: &str, marker: &str, cid: usize, f: &[&str; 4], p: &str, q: &str) -> Option<String> {
    let api = ls.api(code);
    let digits = format!("{}{}", n, marker);
    let conj = spell::info(code).conj;
    let (text, expected) = in_context(cid, phrase, &digits, f, p, q, conj);
    ls.polyglot_probe(code, phrase, &text);
    judge_roundtrip(api, phrase, &text, &expected, &digits, n as f64, true, cid == 0)
}

fn attributed(known: &[&Finding], code: &str, phrase: &str) -> Option<String> {
    for k in known {
        if k.language == code && attribution_exact(&k.attribution, phrase) {
            return Some(k.id.clone());
        }
    }
    None
}

fn eval_rank(ls: &LangSet, known: &[&Finding], rep: &mut Report, code: &str, n: u64, idx: usize, deep: bool, rng: &mut Rng, seed: u64) {
    let forms = spell::ordinals(code, n);
    if forms.is_empty() {
        return;
    }
    rep.seen(&format!("ranks_{}", code), n);
    for (fi, o) in forms.iter().enumerate() {
        let lex = ls.lexicon(code);
        let mut cids = vec![0usize];
        if deep {
            cids.extend(1..N_CONTEXTS);
        } else if fi == (idx + seed as usize) % forms.len() {
            cids.push(1 + (idx + seed as usize) % (N_CONTEXTS - 1));
        }
        for cid in cids {
            let f = pick_fillers(rng, lex);
            let p = rng.pick_str(&PUNCT_AFTER);
            let q = rng.pick_str(&PUNCT_BEFORE);
            let h = hash_bytes(&[code.as_bytes(), o.text.as_bytes(), &[cid as u8]]);
            // a known by-design refusal is judged against the exact bare phrase only
            rep.eval(h, true);
            rep.count(&format!("inflection:{}:{}", code, o.inflection));
            if let Some(msg) = judge_case(ls, code, n, &o.text, o.marker, cid, &f, p, q) {
                if let Some(id) = attributed(known, code, &o.text) {
                    rep.known(&id);
                    continue;
                }
                let fam = super::c01::failure_family(ls, code, &o.text);
                rep.violation(
                    &format!("{}:{}", code, fam),
                    jobj! {"kind" => KIND, "lang" => code, "n" => n, "phrase" => o.text.as_str(), "marker" => o.marker,
                    "inflection" => o.inflection, "variant" => o.variant, "context" => cid, "context_name" => CONTEXT_NAMES[cid],
                    "fillers" => J::Arr(f.iter().map(|s| J::from(*s)).collect()), "punct" => p, "quote" => q},
                    format!("[{} rank={} inflection={} variant={}] {}", code, n, o.inflection, o.variant, msg),
                );
            } else if rep.want_sample() && rng.chance(1, 3000) {
                rep.sample(jobj! {"lang" => code, "rank" => n, "phrase" => o.text.as_str(), "inflection" => o.inflection, "context" => CONTEXT_NAMES[cid], "result" => format!("{}{}", n, o.marker)});
            }
        }
    }
}

pub fn run(ctx: &Ctx) -> Outcome {
    let findings = load_findings(&ctx.verif_dir);
    let findings_ref = &findings;
    let small_max: u64 = if ctx.quick() { 10_000 } else { 1_000_000 };
    let n_random = ctx.n(100_000, 0);
    let mut rep = run_sharded(ctx, |w, nw, rep| {
        let ls = LangSet::new();
        let known = known_for(findings_ref, "C04");
        let mut rng = Rng::derive(ctx.seed, "C04", w as u64);
        for code in LANGS {
            let max = spell::info(code).ord_max.min(small_max);
            let mut n = 1 + w as u64;
            while n <= max {
                // contexts for every rank up to 2000, rotating beyond
                eval_rank(&ls, &known, rep, code, n, n as usize, n <= 2000 && !ctx.quick() || n <= 120, &mut rng, ctx.seed);
                n += nw as u64;
            }
            let full_max = spell::info(code).ord_max;
            if full_max > small_max {
                for i in 0..(n_random / nw as u64) {
                    let n = small_max + 1 + rng.below(full_max - small_max);
                    eval_rank(&ls, &known, rep, code, n, i as usize, false, &mut rng, ctx.seed);
                }
                if w == 0 {
                    eval_rank(&ls, &known, rep, code, full_max, 0, true, &mut rng, ctx.seed);
                }
            }
        }
    });
    let ls = LangSet::new();
    for k in known_for(&findings, "C04") {
        for wj in &k.witnesses {
            let phrase = wj.str_of("phrase");
            let marker = wj.str_of("marker");
            let n = wj.get("n").and_then(|x| x.as_i64()).unwrap_or(0) as u64;
            if judge_case(&ls, &k.language, n, &phrase, &marker, 0, &["", "", "", ""], "", "").is_some() {
                println!("KNOWN-FINDING: property=C04 id={} {} (witness {:?} still fails)", k.id, k.what, phrase);
                rep.count("known_witness_still_failing");
            } else {
                println!("note: known finding {} no longer reproduces on witness {:?}", k.id, phrase);
                rep.notes.push(format!("known finding {} no longer reproduces on witness {:?}", k.id, phrase));
            }
        }
    }
    let exhaustive = !ctx.quick();
    let rule = "cases = (language, spelled ordinal form, sentence context); ranks: quick = every rank 1..10000 (es/pt: the whole range 1..1999) plus random ranks up to 10^6, thorough = every rank of the stated range [1,10^6] (es/pt [1,1999]); forms = every gender/number inflection (and hyphen/space or glued/split variants) from the independent ordinal spellers; non-trivial = validate/rewrite/occurrence compared with decimal(n)+marker; distinct = distinct (language, phrase, context) hashes";
    finish(
        ctx,
        rep,
        rule,
        &[
            "ordinal spellers encode the conventions of DESIGN.md section 4 (Italian systematic -esimo forms, Spanish decimotercero.., no apocopated primer/tercer)",
            "known finding K2 (es bare 'segundo(s)') is matched on the exact phrase only",
        ],
        vec![("rank_space_exhaustive".into(), J::Bool(exhaustive)), ("rank_range_enumerated".into(), J::Str(if exhaustive { "1..=10^6 (es/pt 1..=1999), all inflections".into() } else { "1..=10000 (es/pt 1..=1999) + random".to_string() }))],
    )
}

pub fn replay(case: &J) -> Vec<String> {
    let ls = LangSet::new();
    let code = case.str_of("lang");
    let n = case.get("n").and_then(|x| x.as_i64()).unwrap_or(0) as u64;
    let phrase = case.str_of("phrase");
    let marker = case.str_of("marker");
    let cid = case.get("context").and_then(|x| x.as_i64()).unwrap_or(0) as usize;
    let fv: Vec<String> = case.get("fillers").and_then(|a| a.as_arr()).map(|a| a.iter().map(|x| x.as_str().unwrap_or("").to_string()).collect()).unwrap_or_default();
    let g = |i: usize| fv.get(i).map(|s| s.as_str()).unwrap_or("");
    let f: [&str; 4] = [g(0), g(1), g(2), g(3)];
    judge_case(&ls, &code, n, &phrase, &marker, cid, &f, &case.str_of("punct"), &case.str_of("quote")).into_iter().collect()
}
