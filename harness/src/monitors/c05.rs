//! C05 Decimal round-trip (conditional on the integer part's cardinal round-trip, so a C01 defect is not reported twice).

use crate::api::LANGS;
use crate::core::{finish, run_sharded, Ctx, Outcome, Report};
use crate::gen;
use crate::jobj;
use crate::json::J;
use crate::lexicon::{PUNCT_AFTER, PUNCT_BEFORE};
use crate::rng::{hash_bytes, Rng};
use crate::spell;

use super::{in_context, judge_roundtrip, pick_fillers, LangSet, CONTEXT_NAMES, N_CONTEXTS};

pub const KIND: &str = "decimal-roundtrip";

pub fn decimal_phrase(code: &str, int_phrase: &str, d: &str) -> Option<String> {
    let frac = spell::fraction(code, d)?;
    Some(format!("{} {} {}", int_phrase, spell::info(code).sep, frac))
}

/// English variant: `o` dictated for zero in the fraction, only where every `o` has a digit word next to it
/// (no two adjacent zeros, not a lone final zero after the separator).
pub fn decimal_phrase_en_o(int_phrase: &str, d: &str) -> Option<String> {
    if d.len() < 2 || d.contains("00") || !d.contains('0') || d.starts_with('0') && d.len() < 2 {
        return None;
    }
    let words: Vec<&str> = d.bytes().map(|b| if b == b'0' { "o" } else { spell::info("en").digits[(b - b'0') as usize] }).collect();
    Some(format!("{} point {}", int_phrase, words.join(" ")))
}

pub fn judge_case(ls: &LangSet, code: &str, n: u64, d: &str, phrase: &str, cid: usize, f: &[&str; 4], p: &str, q: &str) -> Option<String> {
    let api = ls.api(code);
    let info = spell::info(code);
    let digits = format!("{}{}{}", n, info.mark, d);
    let value: f64 = format!("{}.{}", n, d).parse().unwrap();
    let (text, expected) = in_context(cid, phrase, &digits, f, p, q, info.conj);
    judge_roundtrip(api, phrase, &text, &expected, &digits, value, false, false)
}

/// the same phrase as a time-stamped word stream (ASR output): every word takes 60..600 ms, the silence between two words
/// is below the pause that makes a token "unrelated to its predecessor", so the phrase must still be one number
pub fn judge_timed_stream(ls: &LangSet, code: &str, n: u64, d: &str, phrase: &str, durations: &[u64]) -> Option<String> {
    let api = ls.api(code);
    let info = spell::info(code);
    let mut t = 1000u64;
    let toks: Vec<crate::api::IdTok> = phrase
        .split(' ')
        .filter(|w| !w.is_empty())
        .enumerate()
        .map(|(i, w)| {
            let dur = durations[i % durations.len()];
            let tok = crate::api::IdTok::timed(i as u64, w, t, t + dur);
            t += dur + 20 + (dur % 60);
            tok
        })
        .collect();
    let occs = api.find(&toks, 0.0);
    let digits = format!("{}{}{}", n, info.mark, d);
    if occs.len() != 1 || occs[0].text != digits || occs[0].start != 0 || occs[0].end != toks.len() {
        return Some(format!("time-stamped word stream of {:?} (silences of 20..80 ms, pause limit {} ms): occurrences {} , expected one occurrence {:?} over the whole stream", phrase, crate::api::PAUSE_MS, crate::api::show_occs(&occs), digits));
    }
    None
}

/// negative clause 1: a separator word with no number before it stays a word
pub fn judge_sep_without_int(ls: &LangSet, code: &str, filler: &str, d: &str) -> Option<String> {
    let api = ls.api(code);
    let info = spell::info(code);
    let frac = spell::fraction(code, d)?;
    let text = format!("{} {} {}", filler, info.sep, frac);
    let r = api.replace(&text, 0.0);
    let frac_alone = api.replace(&frac, 0.0);
    let expected = format!("{} {} {}", filler, info.sep, frac_alone);
    if r != expected {
        return Some(format!("replace_numbers_in_text({:?}, 0) = {:?}, expected {:?} (separator with no number before it must stay a word)", text, r, expected));
    }
    None
}

/// negative clause 2: a separator word with nothing usable after it stays a word
pub fn judge_sep_without_frac(ls: &LangSet, code: &str, n: u64, int_phrase: &str, filler: &str) -> Option<String> {
    let api = ls.api(code);
    let info = spell::info(code);
    let text = format!("{} {} {}", int_phrase, info.sep, filler);
    let r = api.replace(&text, 0.0);
    let expected = format!("{} {} {}", n, info.sep, filler);
    if r != expected {
        return Some(format!("replace_numbers_in_text({:?}, 0) = {:?}, expected {:?} (separator with nothing usable after it must stay a word)", text, r, expected));
    }
    None
}

fn fraction_strings(rng: &mut Rng, extra: usize) -> Vec<String> {
    let mut v: Vec<String> = Vec::new();
    for a in 0..10 {
        v.push(format!("{}", a));
        for b in 0..10 {
            v.push(format!("{}{}", a, b));
        }
    }
    // stratified longer ones: every pattern of leading / inner / trailing zeros
    for len in 3..=6usize {
        for lead in 0..len {
            for trail in 0..(len - lead) {
                let mid = len - lead - trail;
                let mut s = "0".repeat(lead);
                for i in 0..mid {
                    let dgt = if i == 0 || i + 1 == mid { 1 + rng.below(9) } else { rng.below(10) };
                    s.push(char::from(b'0' + dgt as u8));
                }
                s.push_str(&"0".repeat(trail));
                v.push(s);
            }
        }
    }
    for _ in 0..extra {
        let len = 1 + rng.usize(6);
        let s: String = (0..len).map(|_| char::from(b'0' + if rng.chance(1, 3) { 0 } else { rng.below(10) as u8 })).collect();
        v.push(s);
    }
    v
}

pub fn run(ctx: &Ctx) -> Outcome {
    let mut numbers: Vec<u64> = (0..1000).collect();
    numbers.extend(gen::group_sweep(ctx.seed).into_iter().filter(|n| *n < 1_000_000_000).step_by(if ctx.quick() { 7 } else { 1 }));
    numbers.extend(gen::boundaries().into_iter().filter(|n| *n < 1_000_000_000));
    let n_random = ctx.n(40_000, 600_000);
    let numbers = &numbers;
    let rep = run_sharded(ctx, |w, nw, rep| {
        let ls = LangSet::new();
        let mut rng = Rng::derive(ctx.seed, "C05", w as u64);
        let fracs_full = fraction_strings(&mut rng, 40);
        let mut work = |rep: &mut Report, rng: &mut Rng, n: u64, idx: usize, all_fracs: bool| {
            for code in LANGS {
                if !spell::cardinal_in_domain(code, n) {
                    continue;
                }
                let api = ls.api(code);
                let lex = ls.lexicon(code);
                let int_phrase = if idx % 4 == 3 {
                    let vs = spell::cardinal_variants(code, n);
                    vs[rng.usize(vs.len())].text.clone()
                } else {
                    spell::cardinal(code, n)
                };
                // conditioning on C01
                if api.validate(&int_phrase).as_deref() != Ok(n.to_string().as_str()) {
                    rep.count("skipped_integer_part_fails_C01");
                    rep.eval(hash_bytes(&[code.as_bytes(), int_phrase.as_bytes()]), false);
                    continue;
                }
                let picks: Vec<&String> = if all_fracs {
                    fracs_full.iter().collect()
                } else {
                    (0..6).map(|_| rng.pick(&fracs_full)).collect()
                };
                for d in picks {
                    let phrase = match if code == "en" && rng.chance(1, 4) { decimal_phrase_en_o(&int_phrase, d).or_else(|| decimal_phrase(code, &int_phrase, d)) } else { decimal_phrase(code, &int_phrase, d) } {
                        Some(p) => p,
                        None => continue,
                    };
                    let cid = if all_fracs { rng.usize(N_CONTEXTS) } else { (idx + d.len()) % N_CONTEXTS };
                    let f = pick_fillers(rng, lex);
                    let p = rng.pick_str(&PUNCT_AFTER);
                    let q = rng.pick_str(&PUNCT_BEFORE);
                    rep.eval(hash_bytes(&[code.as_bytes(), phrase.as_bytes(), &[cid as u8]]), true);
                    rep.seen_str("fraction_shapes", &d.bytes().map(|b| if b == b'0' { '0' } else { 'x' }).collect::<String>());
                    rep.count(&format!("context:{}", CONTEXT_NAMES[cid]));
                    if cid == 0 || rng.chance(1, 4) {
                        let durations: Vec<u64> = (0..7).map(|_| 60 + rng.below(540)).collect();
                        rep.eval(hash_bytes(&[code.as_bytes(), b"timed", phrase.as_bytes()]), true);
                        rep.count("time_stamped_stream_cases");
                        if let Some(msg) = judge_timed_stream(&ls, code, n, d, &phrase, &durations) {
                            rep.violation(
                                &format!("{}:timed-stream", code),
                                jobj! {"kind" => "timed-stream", "lang" => code, "n" => n, "d" => d.as_str(), "phrase" => phrase.as_str(), "durations" => J::Arr(durations.iter().map(|x| J::from(*x)).collect())},
                                format!("[{} n={} d={}] {}", code, n, d, msg),
                            );
                        }
                    }
                    if let Some(msg) = judge_case(&ls, code, n, d, &phrase, cid, &f, p, q) {
                        rep.violation(
                            &format!("{}:{}:intdigits{}:frac-shape-{}", code, CONTEXT_NAMES[cid].split('-').next().unwrap_or(""), n.to_string().len().min(4), d.len().min(3)),
                            jobj! {"kind" => KIND, "lang" => code, "n" => n, "d" => d.as_str(), "phrase" => phrase.as_str(), "context" => cid,
                            "fillers" => J::Arr(f.iter().map(|s| J::from(*s)).collect()), "punct" => p, "quote" => q},
                            format!("[{} n={} d={}] {}", code, n, d, msg),
                        );
                    } else if rep.want_sample() && rng.chance(1, 4000) {
                        rep.sample(jobj! {"lang" => code, "phrase" => phrase.as_str(), "context" => CONTEXT_NAMES[cid], "result" => format!("{}{}{}", n, spell::info(code).mark, d)});
                    }
                }
                // negative clauses
                let filler = rng.pick(&lex.fillers).clone();
                let d = rng.pick(&fracs_full).clone();
                rep.eval(hash_bytes(&[code.as_bytes(), b"neg1", filler.as_bytes(), d.as_bytes()]), true);
                if let Some(msg) = judge_sep_without_int(&ls, code, &filler, &d) {
                    rep.violation(&format!("{}:sep-without-int", code), jobj! {"kind" => "sep-without-int", "lang" => code, "filler" => filler.as_str(), "d" => d.as_str()}, format!("[{}] {}", code, msg));
                }
                if n > 0 {
                    rep.eval(hash_bytes(&[code.as_bytes(), b"neg2", filler.as_bytes(), int_phrase.as_bytes()]), true);
                    if let Some(msg) = judge_sep_without_frac(&ls, code, n, &int_phrase, &filler) {
                        rep.violation(&format!("{}:sep-without-frac", code), jobj! {"kind" => "sep-without-frac", "lang" => code, "n" => n, "phrase" => int_phrase.as_str(), "filler" => filler.as_str()}, format!("[{}] {}", code, msg));
                    }
                }
            }
        };
        for (idx, &n) in numbers.iter().enumerate() {
            if idx % nw != w {
                continue;
            }
            // every 1- and 2-digit fraction (and the stratified longer ones) for the small integers
            let all = n < 30 || (!ctx.quick() && n < 1000);
            work(rep, &mut rng, n, idx, all);
        }
        for i in 0..(n_random / nw as u64) {
            if i % 64 == 0 && ctx.over_budget() {
                break;
            }
            let n = gen::random_number(&mut rng, 9);
            work(rep, &mut rng, n, i as usize, false);
        }
    });
    let rule = "cases = (language, integer phrase, separator word, fraction phrase, context); integers from the C01 sampler below 10^9 whose own round-trip holds (conditioning), fractions = every 1- and 2-digit string, every leading/inner/trailing-zero pattern of length 3..6, random ones; plus the same phrase as a time-stamped word stream whose silences stay below the pause limit (one occurrence over the whole stream); plus the two negative clauses (separator with no number before it / nothing usable after it); non-trivial = rewrite and the single occurrence (text, value, flag) compared with n<mark>d";
    finish(
        ctx,
        rep,
        rule,
        &["fractions are dictated digit by digit in en/de and as 'k zeros + one cardinal' elsewhere (DESIGN.md section 4)", "a case whose integer part fails C01 is skipped and counted, not reported here"],
        vec![],
    )
}

pub fn replay(case: &J) -> Vec<String> {
    let ls = LangSet::new();
    let code = case.str_of("lang");
    match case.str_of("kind").as_str() {
        "timed-stream" => {
            let n = case.get("n").and_then(|x| x.as_i64()).unwrap_or(0) as u64;
            let durations: Vec<u64> = case.get("durations").and_then(|a| a.as_arr()).map(|a| a.iter().map(|x| x.as_i64().unwrap_or(100) as u64).collect()).unwrap_or_else(|| vec![100]);
            judge_timed_stream(&ls, &code, n, &case.str_of("d"), &case.str_of("phrase"), &durations).into_iter().collect()
        }
        "sep-without-int" => judge_sep_without_int(&ls, &code, &case.str_of("filler"), &case.str_of("d")).into_iter().collect(),
        "sep-without-frac" => {
            let n = case.get("n").and_then(|x| x.as_i64()).unwrap_or(0) as u64;
            judge_sep_without_frac(&ls, &code, n, &case.str_of("phrase"), &case.str_of("filler")).into_iter().collect()
        }
        _ => {
            let n = case.get("n").and_then(|x| x.as_i64()).unwrap_or(0) as u64;
            let cid = case.get("context").and_then(|x| x.as_i64()).unwrap_or(0) as usize;
            let fv: Vec<String> = case.get("fillers").and_then(|a| a.as_arr()).map(|a| a.iter().map(|x| x.as_str().unwrap_or("").to_string()).collect()).unwrap_or_default();
            let g = |i: usize| fv.get(i).map(|s| s.as_str()).unwrap_or("");
            let f: [&str; 4] = [g(0), g(1), g(2), g(3)];
            judge_case(&ls, &code, n, &case.str_of("d"), &case.str_of("phrase"), cid, &f, &case.str_of("punct"), &case.str_of("quote")).into_iter().collect()
        }
    }
}
