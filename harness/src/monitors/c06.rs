//! C06 Every reported occurrence is well-formed and self-consistent (invariant monitor on observed outputs).

use crate::api::{IdTok, Occ, LANGS};
use crate::core::{finish, run_sharded, Ctx, Outcome};
use crate::jobj;
use crate::json::J;
use crate::rng::Rng;
use crate::spell;
use crate::streams::{self, gen_stream, is_skipped, StreamOpts};

use super::LangSet;

pub const THRESHOLDS: [f64; 9] = [0.0, 1.0, 3.0, 5.5, 10.0, 25.0, f64::INFINITY, f64::NAN, -1.0];

pub fn markers(code: &str) -> &'static [&'static str] {
    match code {
        "en" => &["st", "nd", "rd", "th", "ths", "rds", "sts"],
        "fr" => &["er", "ère", "ème", "ers", "ères", "èmes"],
        "es" => &["º", "ª", "ᵒˢ", "ᵃˢ", ".ᵉʳ"],
        "pt" => &["º", "ª", "ᵒˢ", "ᵃˢ"],
        "it" => &["º", "ª"],
        "de" => &["."],
        "nl" => &["e"],
        _ => &[],
    }
}

#[derive(Debug)]
pub struct Numeral {
    pub int: String,
    pub frac: Option<String>,
    pub suffix: String,
    pub one_over: bool,
}

pub fn parse_numeral(code: &str, text: &str) -> Result<Numeral, String> {
    let mark = spell::info(code).mark;
    if code == "es" {
        if let Some(rest) = text.strip_prefix("1/") {
            if !rest.is_empty() && rest.bytes().all(|b| b.is_ascii_digit()) {
                return Ok(Numeral { int: rest.to_string(), frac: None, suffix: String::new(), one_over: true });
            }
            return Err(format!("{:?} is not of the form 1/digits", text));
        }
    }
    let nd = text.bytes().take_while(|b| b.is_ascii_digit()).count();
    if nd == 0 {
        return Err(format!("{:?} does not start with a digit", text));
    }
    let int = text[..nd].to_string();
    let mut rest = &text[nd..];
    let mut frac = None;
    if let Some(r) = rest.strip_prefix(mark) {
        let fd = r.bytes().take_while(|b| b.is_ascii_digit()).count();
        if fd > 0 {
            frac = Some(r[..fd].to_string());
            rest = &r[fd..];
        }
    }
    if rest.bytes().any(|b| b.is_ascii_digit()) {
        return Err(format!("{:?}: digits after the numeral part", text));
    }
    if !rest.is_empty() && !markers(code).contains(&rest) {
        return Err(format!("{:?}: {:?} is not an ordinal marker of {}", text, rest, code));
    }
    Ok(Numeral { int, frac, suffix: rest.to_string(), one_over: false })
}

pub fn check_occurrence(code: &str, toks: &[IdTok], o: &Occ) -> Option<String> {
    if !(o.start < o.end && o.end <= toks.len()) {
        return Some(format!("span {}..{} outside the stream of {} tokens", o.start, o.end, toks.len()));
    }
    for (name, t) in [("first", &toks[o.start]), ("last", &toks[o.end - 1])] {
        if is_skipped(&t.text) || t.nan || !t.text.chars().any(|c| c.is_alphabetic()) {
            return Some(format!("{} token of span {}..{} is {:?}, not a word token", name, o.start, o.end, t.show()));
        }
    }
    for t in &toks[o.start..o.end] {
        if t.nan {
            return Some(format!("span {}..{} contains the not-a-number-part token {:?}", o.start, o.end, t.text));
        }
    }
    let num = match parse_numeral(code, &o.text) {
        Ok(n) => n,
        Err(e) => return Some(format!("occurrence text is not a well-formed numeral: {}", e)),
    };
    let expected_value: f64 = if num.one_over {
        1.0 / num.int.parse::<f64>().unwrap()
    } else if let Some(f) = &num.frac {
        format!("{}.{}", num.int, f).parse().unwrap()
    } else {
        num.int.parse().unwrap()
    };
    if o.value != expected_value {
        return Some(format!("value {} differs from the numeric reading {} of text {:?}", o.value, expected_value, o.text));
    }
    if o.is_ordinal != !num.suffix.is_empty() {
        return Some(format!("is_ordinal = {} but text {:?} {} an ordinal marker", o.is_ordinal, o.text, if num.suffix.is_empty() { "carries no" } else { "carries" }));
    }
    if num.frac.is_some() && !num.suffix.is_empty() {
        return Some(format!("decimal {:?} carries an ordinal marker", o.text));
    }
    None
}

pub fn check_stream(ls: &LangSet, code: &str, toks: &[IdTok], t: f64) -> (usize, Option<String>) {
    let occs = ls.api(code).find(toks, t);
    let mut prev_end = 0usize;
    for (i, o) in occs.iter().enumerate() {
        if i > 0 && o.start < prev_end {
            return (occs.len(), Some(format!("occurrences overlap or are out of order: {} then {}", occs[i - 1].show(), o.show())));
        }
        prev_end = o.end;
        if let Some(m) = check_occurrence(code, toks, o) {
            return (occs.len(), Some(format!("{} in occurrence {}", m, o.show())));
        }
    }
    // the lazy entry point reports occurrences too: same invariants on what find_numbers_iter yields, in the order it yields
    let lazy = ls.api(code).find_iter_first(toks, t, usize::MAX);
    let mut prev_end = 0usize;
    for (i, o) in lazy.iter().enumerate() {
        if i > 0 && o.start < prev_end {
            return (occs.len(), Some(format!("find_numbers_iter: occurrences overlap or are out of order: {} then {}", lazy[i - 1].show(), o.show())));
        }
        prev_end = o.end;
        if let Some(m) = check_occurrence(code, toks, o) {
            return (occs.len(), Some(format!("find_numbers_iter: {} in occurrence {}", m, o.show())));
        }
    }
    (occs.len(), None)
}

pub fn run(ctx: &Ctx) -> Outcome {
    let n_streams = ctx.n(700_000, 12_000_000);
    let mut rep = run_sharded(ctx, |w, nw, rep| {
        let ls = LangSet::new();
        let mut rng = Rng::derive(ctx.seed, "C06", w as u64);
        // bounded exhaustive part: every stream of up to 4 (thorough: 5) tokens over the small alphabet of each language
        let (n_small, cut) = streams::for_each_small_stream(&ls.lex, if ctx.quick() { 4 } else { 5 }, w, nw, &|| ctx.elapsed() > ctx.budget_s * 0.5, &mut |code, toks| {
            let mut any = false;
            for &t in [0.0, 10.0].iter() {
                let (n_occ, fail) = check_stream(&ls, code, toks, t);
                any |= n_occ > 0;
                rep.add("occurrences_checked", n_occ as u64);
                if let Some(msg) = fail {
                    let class = msg.split(':').next().unwrap_or("").chars().take(40).collect::<String>();
                    rep.violation(
                        &format!("{}:{}", code, class),
                        jobj! {"kind" => "stream", "lang" => code, "threshold" => format!("{}", t), "tokens" => streams::stream_json(toks)},
                        format!("[{} t={}] {} | stream: {}", code, t, msg, streams::show_stream(toks)),
                    );
                    break;
                }
            }
            rep.eval(streams::stream_hash(code, toks) ^ 0xe4, any);
        });
        rep.add("exhaustive_small_alphabet_streams", n_small);
        if cut {
            rep.count("exhaustive_enumeration_cut_by_budget");
        }
        for i in 0..(n_streams / nw as u64) {
            if i % 256 == 0 && ctx.over_budget() {
                break;
            }
            let code = LANGS[(i % 7) as usize];
            let lex = ls.lexicon(code);
            let opts = if i % 3 == 0 { StreamOpts::plain(14) } else { StreamOpts::hinted(14) };
            let toks = gen_stream(&mut rng, lex, &opts);
            crate::core::set_current(code, "find_numbers", &streams::show_stream(&toks));
            let h = streams::stream_hash(code, &toks);
            let mut any = false;
            for &t in THRESHOLDS.iter() {
                let (n_occ, fail) = check_stream(&ls, code, &toks, t);
                any |= n_occ > 0;
                rep.add("occurrences_checked", n_occ as u64);
                if let Some(msg) = fail {
                    let class = msg.split(':').next().unwrap_or("").chars().take(40).collect::<String>();
                    rep.violation(
                        &format!("{}:{}", code, class),
                        jobj! {"kind" => "stream", "lang" => code, "threshold" => format!("{}", t), "tokens" => streams::stream_json(&toks)},
                        format!("[{} t={}] {} | stream: {}", code, t, msg, streams::show_stream(&toks)),
                    );
                    break;
                }
            }
            rep.eval(h, any);
            if any && rep.want_sample() && rng.chance(1, 3000) {
                let occs = ls.api(code).find(&toks, 0.0);
                rep.sample(jobj! {"lang" => code, "stream" => streams::show_stream(&toks), "occurrences_at_0" => crate::api::show_occs(&occs)});
            }
        }
    });
    if !ctx.quick() {
        super::legs::fuzz_leg(ctx, &mut rep, 45);
    }
    let rule = "cases = every stream of 1..4 (thorough 1..5) tokens over a 16-word alphabet per language (one word per grammar / policy class; counter exhaustive_small_alphabet_streams) at thresholds 0 and 10, and grammar-noise token streams (number words 41%, ordinal forms 8%, conjunction 6%, separator 5%, linking 8%, fillers 16%, punctuation 12%, zero 4%, 12% of number slots replaced by a complete spelled number), two thirds of them with whitespace/hyphen tokens, random case and random separation / not-a-number hints; each stream scanned at 9 thresholds (incl. inf, NaN, negative); every check is applied to the result of find_numbers and to what find_numbers_iter yields, in the order it yields; non-trivial = stream for which at least one occurrence was reported and checked (span, word boundaries, numeral grammar, value = reading, ordinal flag <=> marker)";
    finish(ctx, rep, rule, &["ordinal marker alphabets per language are taken from the property statement and the library documentation (en st/nd/rd/th, plural sts/rds/ths, fr er/ère/ème(s), es/pt º ª ᵒˢ ᵃˢ (.ᵉʳ), it º ª, de '.', nl e)"], vec![])
}

pub fn replay(case: &J) -> Vec<String> {
    let ls = LangSet::new();
    let code = case.str_of("lang");
    let toks = streams::stream_from_json(case.get("tokens").unwrap_or(&J::Null));
    let mut out = Vec::new();
    for &t in THRESHOLDS.iter() {
        if let (_, Some(m)) = check_stream(&ls, &code, &toks, t) {
            out.push(format!("t={}: {}", t, m));
        }
    }
    out
}
