//! C07 Scanner and validator agree; at threshold 0 no number is left spelled out (differential monitor).

use crate::api::{IdTok, LANGS};
use crate::core::{finish, run_sharded, Ctx, Outcome};
use crate::gen;
use crate::jobj;
use crate::json::J;
use crate::rng::{hash_bytes, Rng};
use crate::spell;
use crate::streams::{self, gen_stream, is_skipped, StreamOpts};

use super::LangSet;

fn is_decimal_text(code: &str, text: &str) -> bool {
    let mark = spell::info(code).mark;
    // the German ordinal marker is '.', its decimal mark ','; English decimals use '.', its markers are letters
    match text.find(mark) {
        Some(i) => text[i + mark.len()..].bytes().next().map(|b| b.is_ascii_digit()).unwrap_or(false),
        None => false,
    }
}

/// (a) every non-decimal occurrence validates, on its own words, to the same digit text;
/// (c) every word outside all occurrences (threshold 0, not flagged) fails validation.
pub fn check_stream(ls: &LangSet, code: &str, toks: &[IdTok]) -> (usize, usize, Option<String>) {
    let api = ls.api(code);
    let occs = api.find(toks, 0.0);
    let mut judged_a = 0;
    let mut judged_c = 0;
    let mut covered = vec![false; toks.len()];
    for o in &occs {
        if o.end > toks.len() || o.start >= o.end {
            return (judged_a, judged_c, Some(format!("malformed span {}", o.show())));
        }
        for c in covered[o.start..o.end].iter_mut() {
            *c = true;
        }
        if is_decimal_text(code, &o.text) {
            continue;
        }
        let words: Vec<&str> = toks[o.start..o.end].iter().filter(|t| !is_skipped(&t.text)).map(|t| t.text.as_str()).collect();
        let phrase = words.join(" ");
        judged_a += 1;
        let v = api.validate(&phrase);
        if v.as_deref() != Ok(o.text.as_str()) {
            return (judged_a, judged_c, Some(format!("(a) occurrence {} over words {:?}, but text2digits({:?}) = {:?}", o.show(), words, phrase, v)));
        }
    }
    for (i, t) in toks.iter().enumerate() {
        if covered[i] || t.nan || is_skipped(&t.text) || !t.text.chars().any(|c| c.is_alphabetic()) {
            continue;
        }
        judged_c += 1;
        if let Ok(d) = api.validate(&t.text) {
            return (judged_a, judged_c, Some(format!("(c) token #{} {:?} validates on its own to {:?} but lies in no occurrence at threshold 0 ({})", i, t.text, d, crate::api::show_occs(&occs))));
        }
    }
    (judged_a, judged_c, None)
}

/// (b) a phrase the validator accepts is seen by the scanner (no annotation, threshold 0) as exactly one number with
/// the same digits.  Returns (antecedent held, failure).
pub fn check_phrase(ls: &LangSet, code: &str, phrase: &str) -> (bool, Option<String>) {
    let api = ls.api(code);
    let d = match api.validate(phrase) {
        Ok(d) => d,
        Err(_) => return (false, None),
    };
    let (_t, occs) = api.scan_text_plain(phrase, 0.0);
    if occs.len() != 1 || occs[0].text != d {
        return (true, Some(format!("(b) text2digits({:?}) = Ok({:?}) but the scanner reports {} occurrence(s): {}", phrase, d, occs.len(), crate::api::show_occs(&occs))));
    }
    (true, None)
}

fn big_scales(code: &str) -> &'static [&'static str] {
    match code {
        "en" => &["billion", "billions", "million", "thousand"],
        "fr" => &["milliard", "milliards", "million", "mille"],
        "es" => &["millones", "millón", "mil"],
        "pt" => &["bilhões", "bilhão", "biliões", "milhões", "mil"],
        "it" => &["bilioni", "bilione", "miliardi", "miliardo", "milioni"],
        "de" => &["billion", "milliarden", "milliarde", "millionen", "tausend"],
        "nl" => &["biljoen", "miljard", "miljoen", "duizend"],
        _ => &[],
    }
}

fn mutate_phrase(rng: &mut Rng, phrase: &str, vocab: &[String]) -> String {
    let mut ws: Vec<String> = phrase.split(' ').map(|s| s.to_string()).collect();
    match rng.below(5) {
        0 if ws.len() > 1 => {
            let i = rng.usize(ws.len());
            ws.remove(i);
        }
        1 => {
            let i = rng.usize(ws.len());
            let w = ws[i].clone();
            ws.insert(i, w);
        }
        2 if ws.len() > 1 => {
            let i = rng.usize(ws.len() - 1);
            ws.swap(i, i + 1);
        }
        3 => {
            let i = rng.usize(ws.len() + 1);
            ws.insert(i, rng.pick(vocab).clone());
        }
        _ => {
            let i = rng.usize(ws.len());
            ws[i] = rng.pick(vocab).clone();
        }
    }
    ws.join(" ")
}

pub fn run(ctx: &Ctx) -> Outcome {
    let n_streams = ctx.n(900_000, 16_000_000);
    let n_phrases = ctx.n(700_000, 12_000_000);
    let mut rep = run_sharded(ctx, |w, nw, rep| {
        let ls = LangSet::new();
        let mut rng = Rng::derive(ctx.seed, "C07", w as u64);
        // bounded exhaustive part: every stream of up to 4 (thorough: 5) tokens over the small alphabet of each language
        let (n_small, cut) = streams::for_each_small_stream(&ls.lex, if ctx.quick() { 4 } else { 5 }, w, nw, &|| ctx.elapsed() > ctx.budget_s * 0.4, &mut |code, toks| {
            let (ja, jc, fail) = check_stream(&ls, code, toks);
            rep.eval(streams::stream_hash(code, toks) ^ 0xe4, ja + jc > 0);
            rep.add("a_occurrences_revalidated", ja as u64);
            rep.add("c_outside_words_checked", jc as u64);
            if let Some(msg) = fail {
                let clause = &msg[..3];
                rep.violation(
                    &format!("{}:{}", code, clause),
                    jobj! {"kind" => "stream", "lang" => code, "tokens" => streams::stream_json(toks)},
                    format!("[{}] {} | stream: {}", code, msg, streams::show_stream(toks)),
                );
            }
        });
        rep.add("exhaustive_small_alphabet_streams", n_small);
        if cut {
            rep.count("exhaustive_enumeration_cut_by_budget");
        }
        for i in 0..(n_streams / nw as u64) {
            if i % 256 == 0 && ctx.elapsed() > ctx.budget_s * 0.55 {
                break;
            }
            let code = LANGS[(i % 7) as usize];
            let lex = ls.lexicon(code);
            let opts = if i % 2 == 0 { StreamOpts::plain(12) } else { StreamOpts::hinted(12) };
            let toks = gen_stream(&mut rng, lex, &opts);
            crate::core::set_current(code, "find_numbers+text2digits", &streams::show_stream(&toks));
            let (ja, jc, fail) = check_stream(&ls, code, &toks);
            rep.eval(streams::stream_hash(code, &toks), ja + jc > 0);
            rep.add("a_occurrences_revalidated", ja as u64);
            rep.add("c_outside_words_checked", jc as u64);
            if let Some(msg) = fail {
                let clause = &msg[..3];
                rep.violation(
                    &format!("{}:{}", code, clause),
                    jobj! {"kind" => "stream", "lang" => code, "tokens" => streams::stream_json(&toks)},
                    format!("[{}] {} | stream: {}", code, msg, streams::show_stream(&toks)),
                );
            } else if ja > 0 && rep.want_sample() && rng.chance(1, 5000) {
                rep.sample(jobj! {"lang" => code, "clause" => "a+c", "stream" => streams::show_stream(&toks), "occurrences" => crate::api::show_occs(&ls.api(code).find(&toks, 0.0))});
            }
        }
        for i in 0..(n_phrases / nw as u64) {
            if i % 256 == 0 && ctx.over_budget() {
                break;
            }
            let code = LANGS[(i % 7) as usize];
            let lex = ls.lexicon(code);
            let phrase = match rng.below(5) {
                4 => {
                    // very large numbers: small group, the largest scale words (possibly stacked), small group
                    let scales = big_scales(code);
                    let mut ws: Vec<String> = Vec::new();
                    if rng.chance(3, 4) {
                        ws.push(spell::cardinal(code, 1 + rng.below(2000)));
                    }
                    ws.push(rng.pick_str(scales).to_string());
                    if rng.chance(1, 3) {
                        ws.push(rng.pick_str(scales).to_string());
                    }
                    if rng.chance(1, 2) {
                        ws.push(spell::cardinal(code, rng.below(1000)));
                    }
                    if rng.chance(1, 4) {
                        ws.insert(0, vec![lex.zero; 1 + rng.usize(16)].join(" "));
                    }
                    ws.join(" ")
                }
                0 => {
                    let n = gen::random_number(&mut rng, 12);
                    let vs = spell::cardinal_variants(code, n);
                    vs[rng.usize(vs.len())].text.clone()
                }
                1 => {
                    let n = 1 + gen::random_number(&mut rng, 6) % spell::info(code).ord_max;
                    let os = spell::ordinals(code, n);
                    os[rng.usize(os.len())].text.clone()
                }
                2 => {
                    let n = gen::random_number(&mut rng, 9);
                    let p = spell::cardinal(code, n);
                    mutate_phrase(&mut rng, &p, &lex.number_words)
                }
                _ => {
                    let k = 1 + rng.usize(6);
                    (0..k)
                        .map(|_| if rng.chance(1, 8) { lex.conj.to_string() } else if rng.chance(1, 6) && !lex.ordinal_words.is_empty() { rng.pick(&lex.ordinal_words).clone() } else { rng.pick(&lex.number_words).clone() })
                        .collect::<Vec<_>>()
                        .join(" ")
                }
            };
            crate::core::set_current(code, "text2digits+find_numbers", &phrase);
            let (ante, fail) = check_phrase(&ls, code, &phrase);
            rep.eval(hash_bytes(&[code.as_bytes(), b"b", phrase.as_bytes()]), ante);
            if ante {
                rep.count("b_validated_phrases");
            }
            if let Some(msg) = fail {
                rep.violation(&format!("{}:(b)", code), jobj! {"kind" => "phrase", "lang" => code, "phrase" => phrase.as_str()}, format!("[{}] {}", code, msg));
            } else if ante && rep.want_sample() && rng.chance(1, 5000) {
                rep.sample(jobj! {"lang" => code, "clause" => "b", "phrase" => phrase.as_str(), "validates_to" => format!("{:?}", ls.api(code).validate(&phrase))});
            }
        }
    });
    if !ctx.quick() {
        super::legs::fuzz_leg(ctx, &mut rep, 45);
    }
    let rule = "cases = every stream of 1..4 (thorough 1..5) tokens over a 16-word alphabet per language (counter exhaustive_small_alphabet_streams); (a,c) grammar-noise token streams (half with whitespace tokens, random case and hints) scanned at threshold 0: every non-decimal occurrence is re-validated on exactly its own words, every uncovered unflagged word must fail validation; (b) phrases = speller output (cardinal variants, ordinal inflections), their one-word mutations and random 1..6-word sequences over the number vocabulary: whenever the validator accepts, the scanner (no annotation) must report exactly one occurrence with the same digits; non-trivial = at least one occurrence or outside word judged / the phrase validated";
    finish(ctx, rep, rule, &["decimal occurrences are outside clause (a) as in the statement", "tokens flagged not-a-number-part by a hint count as set aside"], vec![])
}

pub fn replay(case: &J) -> Vec<String> {
    let ls = LangSet::new();
    let code = case.str_of("lang");
    if case.str_of("kind") == "phrase" {
        check_phrase(&ls, &code, &case.str_of("phrase")).1.into_iter().collect()
    } else {
        let toks = streams::stream_from_json(case.get("tokens").unwrap_or(&J::Null));
        check_stream(&ls, &code, &toks).2.into_iter().collect()
    }
}
