//! C08 No fusion of numbers said one after another; digit dictation keeps every digit.

use std::collections::HashMap;

use crate::api::LANGS;
use crate::core::{finish, run_sharded, Ctx, Outcome};
use crate::jobj;
use crate::json::J;
use crate::rng::{hash_bytes, Rng};
use crate::spell;

use super::LangSet;

/// morpheme-sequence -> the numbers c < 10000 having that sequence in some claimed variant
pub fn build_index(code: &str) -> HashMap<String, Vec<u64>> {
    let mut idx: HashMap<String, Vec<u64>> = HashMap::new();
    for c in 0..10_000u64 {
        for m in spell::morpheme_variants(code, c) {
            let e = idx.entry(m.join("+")).or_default();
            if !e.contains(&c) {
                e.push(c);
            }
        }
    }
    idx
}

/// Languages in which the conjunction is part of "exactly those words": German and Dutch put the unit BEFORE the tens
/// and glue them with the conjunction (`fünfundzwanzig`, `vijfentwintig`); a unit followed by a tens word without it is
/// two numbers there (`fünf zwanzig` = 5 20), and with it one.  In the other five languages the library documents
/// the conjunction as optional (`twenty and one`, `trente et deux`, `treinta uno`), so its presence is not judged.
pub const STRICT_CONJUNCTION: [&str; 2] = ["de", "nl"];

fn nclass(a: u64) -> &'static str {
    match a {
        0 => "zero",
        1..=9 => "unit",
        10 => "ten",
        11..=19 => "teen",
        _ if a % 10 == 0 => "tens",
        _ => "tens+unit",
    }
}

pub struct PairVerdict {
    pub skipped_annotated: bool,
    pub failure: Option<String>,
    pub outcome_class: &'static str,
}

pub fn judge_pair(ls: &LangSet, idx: &HashMap<String, Vec<u64>>, code: &str, a: u64, b: u64, with_conj: bool) -> PairVerdict {
    judge_pair_spelled(ls, idx, code, a, b, with_conj, &spell::cardinal(code, a), &spell::cardinal(code, b))
}

/// the same judgement on given spellings of a and b (any claimed variant: `dreissig`, `huitante`, `dezasseis` ...)
pub fn judge_pair_spelled(ls: &LangSet, idx: &HashMap<String, Vec<u64>>, code: &str, a: u64, b: u64, with_conj: bool, pa: &str, pb: &str) -> PairVerdict {
    let api = ls.api(code);
    let info = spell::info(code);
    let pa = pa.to_string();
    let pb = pb.to_string();
    let j = if with_conj { format!(" {} ", info.conj) } else { " ".to_string() };
    let text = format!("{}{}{}", pa, j, pb);
    if api.tokens(&text).iter().any(|t| t.nan) {
        return PairVerdict { skipped_annotated: true, failure: None, outcome_class: "skipped" };
    }
    let out = api.replace(&text, 0.0);
    let literal = format!("{}{}{}", a, j, b);
    if out == literal {
        return PairVerdict { skipped_annotated: false, failure: None, outcome_class: "both-numbers" };
    }
    // dictation clause: a zero said directly before a number attaches to it; with the conjunction word in between the
    // statement leaves only "both numbers" (no standard spelling consists of zero + conjunction + number)
    if a == 0 && !with_conj && out == format!("0{}", b) {
        return PairVerdict { skipped_annotated: false, failure: None, outcome_class: "zero-prefixed" };
    }
    let mut m = spell::morphemes_of_text(code, &pa);
    m.extend(spell::morphemes_of_text(code, &pb));
    if let Some(cs) = idx.get(&m.join("+")) {
        if let Some(c) = cs.iter().find(|c| out == c.to_string()) {
            // same words; is the conjunction said as often as some claimed spelling of c has it?
            let said = spell::conj_occurrences(code, &text);
            let exact = spell::cardinal_variants(code, *c).iter().any(|v| spell::conj_occurrences(code, &v.text) == said);
            if exact || !STRICT_CONJUNCTION.contains(&code) {
                return PairVerdict { skipped_annotated: false, failure: None, outcome_class: if exact { "single-number-with-exactly-those-words" } else { "single-number-conjunction-tolerated" } };
            }
        }
    }
    // a spaced spelling (hyphens dropped, split compounds) can be cut differently without any arithmetic: `trente quatre
    // vingt trois` is as much 34 23 as 30 83.  Accept any sequence of numbers whose spellings, one after the other, are
    // exactly the spoken words.
    if pa.contains(' ') || pb.contains(' ') {
        let nums: Option<Vec<u64>> = out
            .split_whitespace()
            .filter(|p| *p != info.conj)
            .map(|p| if p.bytes().all(|b| b.is_ascii_digit()) && (p == "0" || !p.starts_with('0')) { p.parse::<u64>().ok() } else { None })
            .collect();
        if let Some(nums) = nums {
            fn fits(code: &str, nums: &[u64], m: &[String]) -> bool {
                match nums.split_first() {
                    None => m.is_empty(),
                    Some((c, rest)) => spell::morpheme_variants(code, *c).iter().any(|mv| !mv.is_empty() && m.len() >= mv.len() && m[..mv.len()] == mv[..] && fits(code, rest, &m[mv.len()..])),
                }
            }
            if nums.len() >= 2 && nums.len() <= 4 && nums.iter().all(|c| *c < 10_000) && fits(code, &nums, &m) {
                return PairVerdict { skipped_annotated: false, failure: None, outcome_class: "other-cut-of-the-same-spaced-words" };
            }
        }
    }
    PairVerdict {
        skipped_annotated: false,
        failure: Some(format!(
            "replace_numbers_in_text({:?}, 0) = {:?}: neither both numbers in order ({:?}) nor a number spelled with exactly the words {:?}",
            text, out, literal, m
        )),
        outcome_class: "violation",
    }
}

/// grouping rule of the statement: a run of zeros joins the following non-zero digit; trailing zeros form one group
pub fn group_digits(d: &str) -> String {
    let mut groups: Vec<String> = Vec::new();
    let mut zeros = String::new();
    for ch in d.chars() {
        if ch == '0' {
            zeros.push('0');
        } else {
            groups.push(format!("{}{}", zeros, ch));
            zeros.clear();
        }
    }
    if !zeros.is_empty() {
        groups.push(zeros);
    }
    groups.join(" ")
}

pub fn judge_dictation(ls: &LangSet, code: &str, d: &str) -> (bool, Option<String>) {
    let api = ls.api(code);
    let text = spell::dictate(code, d);
    // no skip here: in a sequence of digit words every neighbour of an ambiguous word is a number word, so the
    // ambiguity rules never legitimately set a digit aside
    let out = api.replace(&text, 0.0);
    let expected = group_digits(d);
    if out != expected {
        return (false, Some(format!("replace_numbers_in_text({:?}, 0) = {:?}, expected {:?}", text, out, expected)));
    }
    (false, None)
}

/// English: the zeros dictated as the letter `o` (two or more digits, so that every `o` has a digit word or another `o`
/// next to it)
pub fn judge_dictation_o(ls: &LangSet, d: &str) -> Option<String> {
    let api = ls.api("en");
    let digits = spell::info("en").digits;
    let text: String = d.bytes().map(|b| if b == b'0' { "o" } else { digits[(b - b'0') as usize] }).collect::<Vec<_>>().join(" ");
    let out = api.replace(&text, 0.0);
    let expected = group_digits(d);
    if out != expected {
        return Some(format!("replace_numbers_in_text({:?}, 0) = {:?}, expected {:?}", text, out, expected));
    }
    None
}

pub fn run(ctx: &Ctx) -> Outcome {
    let max_len_exhaustive: usize = if ctx.quick() { 5 } else { 6 };
    let n_random = ctx.n(300_000, 3_000_000);
    let rep = run_sharded(ctx, |w, nw, rep| {
        let ls = LangSet::new();
        let mut rng = Rng::derive(ctx.seed, "C08", w as u64);
        // pairs: language = shard unit (7 languages x 2 joiners x 100 rows = 1400 rows)
        let mut row = 0usize;
        for code in LANGS {
            let mut idx: Option<HashMap<String, Vec<u64>>> = None;
            for with_conj in [false, true] {
                for a in 0..100u64 {
                    row += 1;
                    if row % nw != w {
                        continue;
                    }
                    let idx = idx.get_or_insert_with(|| build_index(code));
                    for b in 0..100u64 {
                        let v = judge_pair(&ls, idx, code, a, b, with_conj);
                        rep.eval(hash_bytes(&[code.as_bytes(), &[a as u8, b as u8, with_conj as u8]]), !v.skipped_annotated);
                        rep.count(&format!("pair_outcome:{}", v.outcome_class));
                        if let Some(msg) = v.failure {
                            rep.violation(
                                &format!("{}:pair:{}:{}:{}", code, if with_conj { "conj" } else { "space" }, nclass(a), nclass(b)),
                                jobj! {"kind" => "pair", "lang" => code, "a" => a, "b" => b, "with_conj" => with_conj},
                                format!("[{} a={} b={} conj={}] {}", code, a, b, with_conj, msg),
                            );
                        } else if rep.want_sample() && rng.chance(1, 5000) {
                            rep.sample(jobj! {"lang" => code, "a" => a, "b" => b, "with_conjunction" => with_conj, "outcome" => v.outcome_class});
                        }
                        // the other claimed spellings of a and b (regional tens, `dreissig`, split forms ...): every distinct
                        // (variant of a, variant of b) combination in the thorough tier, one rotating combination in quick
                        let mut va: Vec<String> = spell::cardinal_variants(code, a).into_iter().map(|v| v.text).collect();
                        let mut vb: Vec<String> = spell::cardinal_variants(code, b).into_iter().map(|v| v.text).collect();
                        va.dedup();
                        vb.dedup();
                        let mut seen = std::collections::BTreeSet::new();
                        va.retain(|t| seen.insert(t.clone()));
                        seen.clear();
                        vb.retain(|t| seen.insert(t.clone()));
                        let combos = va.len() * vb.len();
                        if combos > 1 {
                            let pick = 1 + (a as usize * 7 + b as usize * 3 + ctx.seed as usize) % (combos - 1);
                            for c in 1..combos {
                                if ctx.quick() && c != pick {
                                    continue;
                                }
                                let (pa, pb) = (&va[c / vb.len()], &vb[c % vb.len()]);
                                let mut v = judge_pair_spelled(&ls, idx, code, a, b, with_conj, pa, pb);
                                rep.eval(hash_bytes(&[code.as_bytes(), pa.as_bytes(), b"|", pb.as_bytes(), &[with_conj as u8]]), !v.skipped_annotated);
                                rep.count("pair_variant_spellings");
                                // a purely orthographic variant (same words, same word boundaries: `dreissig` for `dreißig`,
                                // `catorze` for `quatorze`, `millon` for `millón`) must be read exactly like the primary spelling
                                if v.failure.is_none() && !v.skipped_annotated {
                                    let shape = |t: &str| -> String { t.chars().map(|ch| if ch.is_alphabetic() { 'w' } else { ch }).collect::<String>().split('w').filter(|p| !p.is_empty()).collect::<Vec<_>>().join("w") };
                                    let (qa, qb) = (&va[0], &vb[0]);
                                    if shape(pa) == shape(qa) && shape(pb) == shape(qb) && spell::morphemes_of_text(code, pa) == spell::morphemes_of_text(code, qa) && spell::morphemes_of_text(code, pb) == spell::morphemes_of_text(code, qb) {
                                        let j = if with_conj { format!(" {} ", spell::info(code).conj) } else { " ".to_string() };
                                        let (tv, tp) = (format!("{}{}{}", pa, j, pb), format!("{}{}{}", qa, j, qb));
                                        let (ov, op) = (ls.api(code).replace(&tv, 0.0), ls.api(code).replace(&tp, 0.0));
                                        rep.count("pair_orthographic_variants_compared");
                                        if ov != op && !ls.api(code).tokens(&tp).iter().any(|t| t.nan) {
                                            v.failure = Some(format!("the orthographic variant {:?} is rewritten {:?} but the primary spelling {:?} is rewritten {:?}", tv, ov, tp, op));
                                        }
                                    }
                                }
                                if let Some(msg) = v.failure {
                                    rep.violation(
                                        &format!("{}:pair-variant:{}:{}:{}", code, if with_conj { "conj" } else { "space" }, nclass(a), nclass(b)),
                                        jobj! {"kind" => "pair", "lang" => code, "a" => a, "b" => b, "with_conj" => with_conj, "pa" => pa.as_str(), "pb" => pb.as_str()},
                                        format!("[{} a={} b={} conj={}] {}", code, a, b, with_conj, msg),
                                    );
                                }
                            }
                        }
                    }
                }
            }
        }
        // dictation: exhaustive up to max_len_exhaustive, random up to 8
        for code in LANGS {
            for len in 1..=max_len_exhaustive {
                let total = 10u64.pow(len as u32);
                let mut x = w as u64;
                while x < total {
                    let d = format!("{:0width$}", x, width = len);
                    let (skipped, fail) = judge_dictation(&ls, code, &d);
                    rep.eval(hash_bytes(&[code.as_bytes(), b"dict", d.as_bytes()]), !skipped);
                    if skipped {
                        rep.count("dictation_skipped_annotated");
                    }
                    if let Some(msg) = fail {
                        rep.violation(&format!("{}:dictation:{}", code, d.len()), jobj! {"kind" => "dictation", "lang" => code, "d" => d.as_str()}, format!("[{} d={}] {}", code, d, msg));
                    }
                    if code == "en" && len >= 2 && d.contains('0') {
                        rep.eval(hash_bytes(&[b"en-dict-o", d.as_bytes()]), true);
                        rep.count("dictation_with_letter_o");
                        if let Some(msg) = judge_dictation_o(&ls, &d) {
                            rep.violation(&format!("en:dictation-o:{}", d.len()), jobj! {"kind" => "dictation-o", "lang" => "en", "d" => d.as_str()}, format!("[en d={} zeros as `o`] {}", d, msg));
                        }
                    }
                    x += nw as u64;
                }
            }
            for i in 0..(n_random / 7 / nw as u64) {
                if i % 256 == 0 && ctx.over_budget() {
                    break;
                }
                let len = 5 + rng.usize(4);
                // two digit distributions: zero-rich, and rich in the digits whose words are ambiguous in some language
                // (fr un / neuf: the ambiguity pass carries a scratch state from one `neuf` to the next)
                let d: String = if i % 2 == 0 {
                    (0..len).map(|_| char::from(b'0' + if rng.chance(1, 3) { 0 } else { rng.below(10) as u8 })).collect()
                } else {
                    (0..len + 1).map(|_| char::from(b'0' + match rng.below(10) { 0..=2 => 1, 3..=5 => 9, _ => rng.below(10) as u8 })).collect()
                };
                let (skipped, fail) = judge_dictation(&ls, code, &d);
                rep.eval(hash_bytes(&[code.as_bytes(), b"dict", d.as_bytes()]), !skipped);
                if let Some(msg) = fail {
                    rep.violation(&format!("{}:dictation:{}", code, d.len()), jobj! {"kind" => "dictation", "lang" => code, "d" => d.as_str()}, format!("[{} d={}] {}", code, d, msg));
                } else if rep.want_sample() && rng.chance(1, 5000) {
                    rep.sample(jobj! {"lang" => code, "dictated" => spell::dictate(code, &d), "result" => group_digits(&d)});
                }
            }
        }
    });
    let rule = format!("pairs: every (a,b) in [0,99]^2 x {{space, conjunction}} x 7 languages in the primary spelling (exhaustive, 140 000 cases) and in one rotating combination of the other claimed spellings (thorough: every combination), allowed outcomes = both numbers in order, the zero-prefixed form for a = 0, or the digits of a c < 10000 whose morpheme sequence (any claimed variant, conjunction ignored) equals morphemes(a)+morphemes(b), or (spaced variant spellings only) another cut of the same words into numbers; dictation: every digit string of length <= {} (English also with the zeros dictated as `o`) and random ones of length 5..8, expected = grouping rule of the statement; texts whose ambiguity annotation flags a token are skipped and counted", max_len_exhaustive);
    finish(ctx, rep, &rule, &["outside German and Dutch the conjunction is ignored when comparing word sequences (the library documents it as optional there; the property is about arithmetic fusion); in German and Dutch, where unit + conjunction + tens is one number and unit + tens is two, it must be said as often as a claimed spelling has it"], vec![("pairs_exhaustive".into(), J::Bool(true))])
}

pub fn replay(case: &J) -> Vec<String> {
    let ls = LangSet::new();
    let code = case.str_of("lang");
    match case.str_of("kind").as_str() {
        "dictation" => judge_dictation(&ls, &code, &case.str_of("d")).1.into_iter().collect(),
        "dictation-o" => judge_dictation_o(&ls, &case.str_of("d")).into_iter().collect(),
        _ => {
            let a = case.get("a").and_then(|x| x.as_i64()).unwrap_or(0) as u64;
            let b = case.get("b").and_then(|x| x.as_i64()).unwrap_or(0) as u64;
            let wc = case.get("with_conj").and_then(|x| x.as_bool()).unwrap_or(false);
            let idx = build_index(&code);
            if let (Some(pa), Some(pb)) = (case.get("pa").and_then(|x| x.as_str()), case.get("pb").and_then(|x| x.as_str())) {
                return judge_pair_spelled(&ls, &idx, &code, a, b, wc, pa, pb).failure.into_iter().collect();
            }
            judge_pair(&ls, &idx, &code, a, b, wc).failure.into_iter().collect()
        }
    }
}
