//! C09 Lone-number policy: universal threshold laws + a small three-valued policy model.

use crate::api::{IdTok, Occ, LANGS};
use crate::core::{finish, run_sharded, Ctx, Outcome};
use crate::jobj;
use crate::json::J;
use crate::rng::Rng;
use crate::spell;
use crate::streams::{self, gen_stream, is_skipped, StreamOpts};

use super::LangSet;

pub const BASE_THRESHOLDS: [f64; 9] = [0.0, 1.0, 3.0, 5.0, 10.0, 25.0, f64::INFINITY, f64::NAN, -1.0];

/// is this occurrence an ordinal?  Read from the digit form (does it end in one of the language's ordinal markers), not
/// from the flag the library reports: the policy must not follow a flag that is itself wrong (a fraction such as es
/// `1/12` carries a marker but is no ordinal).  A text that does not parse as a numeral falls back on the flag (that is
/// C06's finding, not this property's).
fn is_ord(code: &str, o: &Occ) -> bool {
    match super::c06::parse_numeral(code, &o.text) {
        Ok(n) => !n.suffix.is_empty(),
        Err(_) => o.is_ordinal,
    }
}

fn small(code: &str, o: &Occ, t: f64) -> bool {
    let one_digit = o.text.len() == 1 && o.text.as_bytes()[0].is_ascii_digit();
    (one_digit || is_ord(code, o)) && o.value < t
}

#[derive(Clone, Copy, PartialEq, Debug)]
pub enum Gap {
    Soft,
    Hard,
    Ambiguous,
}

/// Does the number grammar itself answer this token with "more to come" (in some state of the number in progress)?
/// Such a token is swallowed like a conjunction instead of being looked at as a word; e.g. a compound ending in the
/// conjunction (`soixante-douze-et`), or pt `eaaa`, which the Portuguese lemmatiser reduces to the conjunction `e`.
fn grammar_swallows(api: &dyn crate::api::Api, lower: &str) -> bool {
    for init in ["", "20", "100", "1000"] {
        let mut b = text2num::digit_string::DigitString::new();
        if !init.is_empty() {
            let _ = b.put(init.as_bytes());
        }
        if api.apply(lower, &mut b) == Err(crate::api::ErrK::Incomplete) {
            return true;
        }
    }
    false
}

/// classify the tokens between two neighbouring numbers (policy model, 15 lines)
pub fn classify_gap(ls: &LangSet, code: &str, toks: &[IdTok]) -> Gap {
    let api = ls.api(code);
    let conj = spell::info(code).conj;
    let mut amb = false;
    let mut hard = false;
    for t in toks {
        if is_skipped(&t.text) {
            continue;
        }
        let lower = t.lower.as_str();
        if t.text.chars().any(|c| c.is_alphabetic()) {
            if api.is_decimal_sep(lower) {
                amb = true; // swallowed after a number, a breaker otherwise: the statement does not settle it
            } else if api.is_linking(lower) || (lower == conj && !t.nan) {
                // linking word, or the conjunction (swallowed by the number grammar or listed as linking)
            } else if lower == conj {
                amb = true; // a conjunction flagged "not a number part" that the language does not list as linking
            } else if !t.nan && grammar_swallows(api, lower) {
                // a token the number grammar itself answers with "more to come" (e.g. a compound ending in the
                // conjunction, `soixante-douze-et`): swallowed like a conjunction, same unsettled class
                amb = true;
            } else {
                hard = true;
            }
        } else if t.text.trim() == "." {
            return Gap::Hard;
        }
        // any other token without a letter (punctuation, "...", digit tokens) is transparent: the property's anchor
        // names the breakers as "alphabetic non-linking word or a lone period"
    }
    if hard {
        Gap::Hard
    } else if amb {
        Gap::Ambiguous
    } else {
        Gap::Soft
    }
}

fn contains(set: &[Occ], o: &Occ) -> bool {
    set.iter().any(|x| x == o)
}

fn subset(a: &[Occ], b: &[Occ]) -> Option<Occ> {
    a.iter().find(|x| !contains(b, x)).cloned()
}

pub struct StreamVerdict {
    pub numbers: usize,
    pub judged_policy: usize,
    pub skipped_ambiguous: usize,
    pub gap_classes: [usize; 3],
    pub failure: Option<String>,
}

pub fn check_stream(ls: &LangSet, code: &str, toks: &[IdTok], model: bool) -> StreamVerdict {
    let api = ls.api(code);
    let f0 = api.find(toks, 0.0);
    let mut v = StreamVerdict { numbers: f0.len(), judged_policy: 0, skipped_ambiguous: 0, gap_classes: [0; 3], failure: None };
    let mut ts: Vec<f64> = BASE_THRESHOLDS.to_vec();
    for o in f0.iter().take(6) {
        ts.push(o.value);
        ts.push(o.value + 0.5);
        ts.push(o.value - 0.5);
    }
    // results per threshold
    let results: Vec<(f64, Vec<Occ>)> = ts.iter().map(|&t| (t, api.find(toks, t))).collect();
    // gaps between neighbouring numbers of F0
    let gaps: Vec<Gap> = if model {
        (0..f0.len().saturating_sub(1)).map(|i| classify_gap(ls, code, &toks[f0[i].end.min(toks.len())..f0[i + 1].start.min(toks.len())])).collect()
    } else {
        vec![]
    };
    for g in &gaps {
        v.gap_classes[match g {
            Gap::Soft => 0,
            Gap::Hard => 1,
            Gap::Ambiguous => 2,
        }] += 1;
    }
    for (t, ft) in &results {
        let t = *t;
        // U0: "the set of numbers recognised" is the same through both search entry points
        let lazy = api.find_iter_first(toks, t, usize::MAX);
        if &lazy != ft {
            v.failure = Some(format!("U0: at threshold {} find_numbers_iter yields {} but find_numbers reports {}", t, crate::api::show_occs(&lazy), crate::api::show_occs(ft)));
            return v;
        }
        // U1: F(t) is a subset of F(0), as exact tuples
        if let Some(o) = subset(ft, &f0) {
            v.failure = Some(format!("U1: occurrence {} reported at threshold {} is not among those at threshold 0 ({})", o.show(), t, crate::api::show_occs(&f0)));
            return v;
        }
        // U3: t <= 0 or NaN rewrites everything
        if (t <= 0.0 || t.is_nan()) && ft.len() != f0.len() {
            v.failure = Some(format!("U3: threshold {} reports {} occurrences, threshold 0 reports {}", t, ft.len(), f0.len()));
            return v;
        }
        // U4: every non-small number is reported
        for o in &f0 {
            if !small(code, o, t) && !contains(ft, o) {
                v.failure = Some(format!("U4: {} is not small at threshold {} (multi-digit cardinal, decimal, or value >= threshold) but is not reported", o.show(), t));
                return v;
            }
        }
        // policy model
        if model && !t.is_nan() {
            for (i, o) in f0.iter().enumerate() {
                if !small(code, o, t) {
                    continue;
                }
                let link = |a: usize, b: usize| -> Option<bool> {
                    if is_ord(code, &f0[a]) != is_ord(code, &f0[b]) {
                        return Some(false);
                    }
                    match gaps[a] {
                        Gap::Soft => Some(true),
                        Gap::Hard => Some(false),
                        Gap::Ambiguous => None,
                    }
                };
                let prev = if i > 0 { link(i - 1, i) } else { Some(false) };
                let next = if i + 1 < f0.len() { link(i, i + 1) } else { Some(false) };
                let expected = if prev == Some(true) || next == Some(true) {
                    Some(true)
                } else if prev == Some(false) && next == Some(false) {
                    Some(false)
                } else {
                    None
                };
                match expected {
                    None => v.skipped_ambiguous += 1,
                    Some(e) => {
                        v.judged_policy += 1;
                        let got = contains(ft, o);
                        if got != e {
                            v.failure = Some(format!(
                                "policy: at threshold {} the small number {} is {} but {} (previous link {:?}, next link {:?})",
                                t,
                                o.show(),
                                if got { "rewritten" } else { "left in words" },
                                if e { "has an adjacent number of the same kind" } else { "is isolated" },
                                prev,
                                next
                            ));
                            return v;
                        }
                    }
                }
            }
        }
    }
    // U2: monotonicity over all ordered pairs of finite thresholds
    for (t1, f1) in &results {
        for (t2, f2) in &results {
            if t1 <= t2 {
                if let Some(o) = subset(f2, f1) {
                    v.failure = Some(format!("U2: {} is reported at threshold {} but not at the lower threshold {}", o.show(), t2, t1));
                    return v;
                }
            }
        }
    }
    v
}

pub fn run(ctx: &Ctx) -> Outcome {
    let n_streams = ctx.n(300_000, 6_000_000);
    let mut rep = run_sharded(ctx, |w, nw, rep| {
        let ls = LangSet::new();
        let mut rng = Rng::derive(ctx.seed, "C09", w as u64);
        // table / lookup agreement (hook H2): every word of a language's own linking-word table must be answered "linking"
        // by that language's lookup, through the concrete type and through the facade, and must not break a sequence
        if w == 0 {
            for code in LANGS {
                let api = ls.api(code);
                let facade = crate::api::facade(code);
                let info = crate::spell::info(code);
                let table = text2num::verif_hooks::linking_vocabulary(code);
                rep.add("linking_table_words_checked", table.len() as u64);
                if table.is_empty() {
                    rep.inconclusive.push(format!("hook H2 returned an empty linking-word table for {}", code));
                }
                // and the other way round: a word that is not an entry of the table (a filler, a number word, one word of a
                // two-word entry such as pt `mais tarde`) must not be answered "linking"
                {
                    let lex = ls.lexicon(code);
                    let mut probes: Vec<String> = lex.fillers.iter().chain(lex.number_words.iter()).chain(lex.ordinal_words.iter()).cloned().collect();
                    for entry in table.iter().filter(|e| e.contains(' ')) {
                        probes.extend(entry.split(' ').map(|p| p.to_string()));
                    }
                    for w in probes {
                        if w.is_empty() || table.iter().any(|e| *e == w) {
                            continue;
                        }
                        rep.eval(crate::rng::hash_bytes(&[b"not-in-linking-table", code.as_bytes(), w.as_bytes()]), true);
                        if api.is_linking(&w) || facade.is_linking(&w) {
                            rep.violation(&format!("{}:linking-table-reverse", code), jobj! {"kind" => "linking-table-reverse", "lang" => code, "word" => w.as_str()}, format!("[{}] {:?} is not an entry of the linking-word table of {} but is_linking answers true", code, w, code));
                        }
                    }
                }
                for word in table {
                    rep.eval(crate::rng::hash_bytes(&[b"linking-table", code.as_bytes(), word.as_bytes()]), true);
                    let mut fail: Option<String> = None;
                    if !api.is_linking(word) || !facade.is_linking(word) {
                        fail = Some(format!("the word {:?} is in the linking-word table of {} but is_linking answers {} (concrete) / {} (facade)", word, code, api.is_linking(word), facade.is_linking(word)));
                    } else if !api.is_number_word(word) && !api.is_decimal_sep(word) && word != info.conj {
                        // two single digits around the word: a linking word is ignored, so both are part of a sequence
                        let toks = vec![crate::api::IdTok::new(0, info.digits[2]), crate::api::IdTok::new(1, word), crate::api::IdTok::new(2, info.digits[3])];
                        let f = api.find(&toks, 10.0);
                        if f.len() != 2 && !grammar_swallows(api, word) {
                            fail = Some(format!("{:?} is a linking word of {} but the sequence {:?} {:?} {:?} at threshold 10 gives {}", word, code, info.digits[2], word, info.digits[3], crate::api::show_occs(&f)));
                        }
                    }
                    if let Some(msg) = fail {
                        rep.violation(&format!("{}:linking-table", code), jobj! {"kind" => "linking-table", "lang" => code, "word" => word}, format!("[{}] {}", code, msg));
                    }
                }
            }
        }
        // bounded exhaustive part: every stream of up to 4 (thorough: 5) tokens over the small alphabet of each language,
        // judged with the policy model (lower-case, hint-free)
        let (n_small, cut) = streams::for_each_small_stream(&ls.lex, if ctx.quick() { 4 } else { 5 }, w, nw, &|| ctx.elapsed() > ctx.budget_s * 0.5, &mut |code, toks| {
            let v = check_stream(&ls, code, toks, true);
            rep.eval(streams::stream_hash(code, toks) ^ 0xe4, v.numbers > 0);
            rep.add("numbers_recognised", v.numbers as u64);
            rep.add("policy_membership_judged", v.judged_policy as u64);
            rep.add("skipped_ambiguous", v.skipped_ambiguous as u64);
            rep.add("gaps_soft", v.gap_classes[0] as u64);
            rep.add("gaps_hard", v.gap_classes[1] as u64);
            rep.add("gaps_ambiguous", v.gap_classes[2] as u64);
            if let Some(msg) = v.failure {
                let clause = msg.split(':').next().unwrap_or("").to_string();
                rep.violation(
                    &format!("{}:{}", code, clause),
                    jobj! {"kind" => "stream", "lang" => code, "model" => true, "tokens" => streams::stream_json(toks)},
                    format!("[{}] {} | stream: {}", code, msg, streams::show_stream(toks)),
                );
            }
        });
        rep.add("exhaustive_small_alphabet_streams", n_small);
        if cut {
            rep.count("exhaustive_enumeration_cut_by_budget");
        }
        for i in 0..(n_streams / nw as u64) {
            if i % 128 == 0 && ctx.over_budget() {
                break;
            }
            let code = LANGS[(i % 7) as usize];
            let lex = ls.lexicon(code);
            // two thirds: lower-case, no hints -> policy model applies; one third hostile (hints, case): universal laws only
            let model = i % 3 != 0;
            // model streams: lower-case; a third of them carry not-a-number / separation hints (a hinted token is
            // classified by its text exactly like an unhinted one: the hint ends a number, it does not change what
            // breaks a sequence)
            let opts = if model {
                StreamOpts { ws_tokens: i % 2 == 0, random_case: i % 4 == 1, nan_permille: if i % 9 < 3 { 120 } else { 0 }, sep_permille: if i % 9 == 1 { 80 } else { 0 }, ..StreamOpts::plain(12) }
            } else {
                StreamOpts::hinted(12)
            };
            let toks = gen_stream(&mut rng, lex, &opts);
            crate::core::set_current(code, "find_numbers at several thresholds", &streams::show_stream(&toks));
            let v = check_stream(&ls, code, &toks, model);
            rep.eval(streams::stream_hash(code, &toks), v.numbers > 0);
            rep.add("numbers_recognised", v.numbers as u64);
            rep.add("policy_membership_judged", v.judged_policy as u64);
            rep.add("skipped_ambiguous", v.skipped_ambiguous as u64);
            rep.add("gaps_soft", v.gap_classes[0] as u64);
            rep.add("gaps_hard", v.gap_classes[1] as u64);
            rep.add("gaps_ambiguous", v.gap_classes[2] as u64);
            if let Some(msg) = v.failure {
                let clause = msg.split(':').next().unwrap_or("").to_string();
                rep.violation(
                    &format!("{}:{}", code, clause),
                    jobj! {"kind" => "stream", "lang" => code, "model" => model, "tokens" => streams::stream_json(&toks)},
                    format!("[{}] {} | stream: {}", code, msg, streams::show_stream(&toks)),
                );
            } else if v.judged_policy > 0 && rep.want_sample() && rng.chance(1, 3000) {
                rep.sample(jobj! {"lang" => code, "stream" => streams::show_stream(&toks), "at_0" => crate::api::show_occs(&ls.api(code).find(&toks, 0.0)), "at_10" => crate::api::show_occs(&ls.api(code).find(&toks, 10.0))});
            }
        }
    });
    if !ctx.quick() {
        super::legs::fuzz_leg(ctx, &mut rep, 45);
    }
    let rule = "table/lookup agreement: every word of each language's linking-word table (hook H2) is answered linking and does not break a sequence of two digits, and no filler, number word or part of a two-word entry that is not itself an entry is answered linking; cases = every stream of 1..4 (thorough 1..5) tokens over a 16-word alphabet per language (counter exhaustive_small_alphabet_streams) and grammar-noise token streams, each scanned at 9 base thresholds (0,1,3,5,10,25,inf,NaN,-1) plus value and value +/- 0.5 of its first numbers; universal laws on every stream: lazy and batch search agree at every threshold, F(t) subset of F(0) as exact tuples, monotonicity over all ordered threshold pairs, t<=0 or NaN rewrites everything, every non-small number is reported; policy model (a quarter of the streams in random case; words are classified by their lower-case form): a small number is reported iff a neighbour of the same kind is linked through a soft gap; gaps are soft (whitespace, hyphen, letter-free tokens other than a lone period, linking words, the conjunction) / hard (a lone period, a word that is not linking) / ambiguous (the separator word, a conjunction flagged not-a-number that the language does not list as linking: not judged); non-trivial = stream with at least one recognised number";
    finish(ctx, rep, rule, &["'is this a linking word / a separator word' is asked of the running library through the public trait methods", "gaps that contain the decimal-separator word are not judged (DESIGN.md C09); letter-free tokens other than a lone period are transparent, as the property's anchor states"], vec![])
}

pub fn replay(case: &J) -> Vec<String> {
    let ls = LangSet::new();
    let code = case.str_of("lang");
    if case.str_of("kind") == "linking-table-reverse" {
        let word = case.str_of("word");
        let listed = text2num::verif_hooks::linking_vocabulary(&code).iter().any(|w| *w == word);
        if !listed && ls.api(&code).is_linking(&word) {
            return vec![format!("{:?} is not an entry of the linking-word table of {} but is_linking answers true", word, code)];
        }
        return vec![];
    }
    if case.str_of("kind") == "linking-table" {
        let word = case.str_of("word");
        let api = ls.api(&code);
        let listed = text2num::verif_hooks::linking_vocabulary(&code).iter().any(|w| *w == word);
        if listed && !api.is_linking(&word) {
            return vec![format!("{:?} is in the linking-word table of {} but is_linking answers false", word, code)];
        }
        return vec![];
    }
    let toks = streams::stream_from_json(case.get("tokens").unwrap_or(&J::Null));
    let model = case.get("model").and_then(|x| x.as_bool()).unwrap_or(false);
    check_stream(&ls, &code, &toks, model).failure.into_iter().collect()
}
