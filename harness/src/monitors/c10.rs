//! C10 Context independence: unrelated parts of a text are converted independently; punctuation keeps numbers apart.

use crate::api::LANGS;
use crate::core::{finish, run_sharded, Ctx, Outcome};
use crate::gen;
use crate::jobj;
use crate::json::J;
use crate::lexicon::Lexicon;
use crate::rng::{hash_bytes, Rng};
use crate::spell;

use super::{workload_text, LangSet};

pub const THRESHOLDS: [f64; 3] = [0.0, 5.0, 10.0];

/// clause 1: rewrite(A S B) == rewrite(A) S rewrite(B)
pub fn check_split(ls: &LangSet, code: &str, a: &str, s: &str, b: &str, t: f64) -> Option<String> {
    let api = ls.api(code);
    let whole = format!("{}{}{}", a, s, b);
    let r = api.replace(&whole, t);
    let expected = format!("{}{}{}", api.replace(a, t), s, api.replace(b, t));
    if r != expected {
        return Some(format!("clause 1 at threshold {}: rewrite(A S B) = {:?} but rewrite(A) S rewrite(B) = {:?}  [A = {:?}, S = {:?}, B = {:?}]", t, r, expected, a, s, b));
    }
    None
}

/// clause 2: punctuation between two spelled numbers keeps them apart
pub fn check_punct(ls: &LangSet, code: &str, a: u64, b: u64, pa: &str, pb: &str, p: &str) -> Option<String> {
    let api = ls.api(code);
    let text = format!("{}{}{}", pa, p, pb);
    let r = api.replace(&text, 0.0);
    let expected = format!("{}{}{}", a, p, b);
    if r != expected {
        return Some(format!("clause 2: rewrite({:?}, 0) = {:?}, expected {:?}", text, r, expected));
    }
    None
}

fn separator(rng: &mut Rng, lex: &Lexicon) -> String {
    let k = 3 + rng.usize(3);
    let ws: Vec<&str> = (0..k).map(|_| rng.pick(&lex.fillers).as_str()).collect();
    format!(" {}. ", ws.join(" "))
}

fn part(rng: &mut Rng, lex: &Lexicon) -> String {
    if rng.chance(1, 8) {
        // a spelled decimal, often with an all-zero or zero-led fraction (state of the decimal path)
        let n = gen::random_number(rng, 3);
        let d = *rng.pick(&["0", "00", "05", "5", "50", "007", "12", "000"]);
        if let Some(p) = super::c05::decimal_phrase(lex.code, &spell::cardinal(lex.code, n), d) {
            let tail = match rng.below(3) {
                0 => format!(" {}", lex.sep),
                1 => format!(" {}", rng.pick(&lex.fillers)),
                _ => String::new(),
            };
            return format!("{}{}", p, tail);
        }
    }
    match (lex.code, rng.below(10)) {
        ("fr", 0..=5) => gen::annot_fr(rng, lex),
        ("en", 0..=3) => gen::annot_en(rng, lex, false),
        _ => workload_text(rng, lex, 10),
    }
}

pub const PUNCTS: [&str; 27] = [
    ", ", ",", "; ", " ; ", ": ", "! ", "? ", ". ", " / ", " (", ") ", " … ", " — ", "\" ", " , ", ",\n", " - ", " – ", "  -  ",
    // the same marks with no space on either side
    ".", ";", ":", "!", "?", "/", "…", "—",
];

pub fn run(ctx: &Ctx) -> Outcome {
    let n_split = ctx.n(600_000, 12_000_000);
    let n_punct = ctx.n(400_000, 8_000_000);
    let mut rep = run_sharded(ctx, |w, nw, rep| {
        let ls = LangSet::new();
        let mut rng = Rng::derive(ctx.seed, "C10", w as u64);
        // bounded exhaustive part of clause 1: every pair (A, B) of texts of 1..2 words (thorough: B up to 3 words) over the
        // small alphabet of each language, around one fixed three-filler separator
        for lex in ls.lex.iter() {
            let code = lex.code;
            let alpha = crate::streams::small_alphabet(lex);
            let k = alpha.len() as u64;
            let text_of = |depth: u32, idx: u64| -> String { crate::streams::nth_small_stream(&alpha, depth, idx).iter().map(|t| t.text.clone()).collect::<Vec<_>>().join(" ") };
            let mut parts_a: Vec<String> = Vec::new();
            for d in 1..=2u32 {
                for i in 0..k.pow(d) {
                    parts_a.push(text_of(d, i));
                }
            }
            let mut parts_b = parts_a.clone();
            if !ctx.quick() {
                for i in 0..k.pow(3) {
                    parts_b.push(text_of(3, i));
                }
            }
            if lex.fillers.len() < 3 {
                continue;
            }
            let sep = format!(" {} {} {}. ", lex.fillers[0], lex.fillers[1], lex.fillers[2]);
            let mut n = 0u64;
            'pairs: for (ia, a) in parts_a.iter().enumerate() {
                if ia % nw != w {
                    continue;
                }
                for b in parts_b.iter() {
                    if n % 2048 == 0 && ctx.elapsed() > ctx.budget_s * 0.35 {
                        rep.count("exhaustive_enumeration_cut_by_budget");
                        break 'pairs;
                    }
                    n += 1;
                    for &t in [0.0, 10.0].iter() {
                        if let Some(msg) = check_split(&ls, code, a, &sep, b, t) {
                            rep.violation(&format!("{}:split", code), jobj! {"kind" => "split", "lang" => code, "a" => a.as_str(), "s" => sep.as_str(), "b" => b.as_str()}, format!("[{}] {}", code, msg));
                            break;
                        }
                    }
                    rep.eval(hash_bytes(&[code.as_bytes(), b"x", a.as_bytes(), b.as_bytes()]), true);
                }
            }
            rep.add("exhaustive_small_alphabet_pairs", n);
        }
        // prefix-length sweep: A = L ordinary words for EVERY L in 0..=400 (thorough 0..=1200), B = a spelled number of several
        // words: however far back the first part reaches, and wherever B falls in the token sequence, B is read the same
        {
            let max_l: usize = if ctx.quick() { 400 } else { 1200 };
            for (li, lex) in ls.lex.iter().enumerate() {
                let code = lex.code;
                if lex.fillers.len() < 4 {
                    continue;
                }
                let sep = format!(" {} {} {}. ", lex.fillers[0], lex.fillers[1], lex.fillers[2]);
                let mut a = String::new();
                for l in 0..=max_l {
                    if l > 0 {
                        if l > 1 {
                            a.push(' ');
                        }
                        a.push_str(&lex.fillers[(l * 7 + li) % lex.fillers.len()]);
                    }
                    if l % nw != w {
                        continue;
                    }
                    if ctx.elapsed() > ctx.budget_s * 0.5 {
                        rep.count("prefix_sweep_cut_by_budget");
                        break;
                    }
                    let n = [25_317u64, 1_200_045, 99, 21_021][l % 4];
                    let b = format!("{} {} {}", spell::cardinal(code, n), lex.fillers[3], spell::cardinal(code, 7 + (l as u64 % 90)));
                    for &t in [0.0, 10.0].iter() {
                        if let Some(msg) = check_split(&ls, code, &a, &sep, &b, t) {
                            rep.violation(&format!("{}:split-long-prefix", code), jobj! {"kind" => "split", "lang" => code, "a" => a.as_str(), "s" => sep.as_str(), "b" => b.as_str()}, format!("[{} prefix of {} words] {}", code, l, msg.chars().take(600).collect::<String>()));
                            break;
                        }
                    }
                    rep.eval(hash_bytes(&[code.as_bytes(), b"sweep", &(l as u32).to_le_bytes()]), true);
                    rep.count("prefix_length_sweep_cases");
                }
            }
        }
        for i in 0..(n_split / nw as u64) {
            if i % 128 == 0 && ctx.elapsed() > ctx.budget_s * 0.65 {
                break;
            }
            // French and English carry annotator state: give them half of the budget
            let code = if i % 2 == 0 { if i % 4 == 0 { "fr" } else { "en" } } else { LANGS[(i / 2 % 7) as usize] };
            let lex = ls.lexicon(code);
            let a = part(&mut rng, lex);
            let b = part(&mut rng, lex);
            let s = separator(&mut rng, lex);
            crate::core::set_current(code, "replace_numbers_in_text", &format!("{}{}{}", a, s, b));
            let mut failed = false;
            for &t in THRESHOLDS.iter() {
                if let Some(msg) = check_split(&ls, code, &a, &s, &b, t) {
                    rep.violation(&format!("{}:split", code), jobj! {"kind" => "split", "lang" => code, "a" => a.as_str(), "s" => s.as_str(), "b" => b.as_str()}, format!("[{}] {}", code, msg));
                    failed = true;
                    break;
                }
            }
            let api = ls.api(code);
            let nontrivial = api.replace(&a, 0.0) != a && api.replace(&b, 0.0) != b;
            rep.eval(hash_bytes(&[code.as_bytes(), a.as_bytes(), s.as_bytes(), b.as_bytes()]), nontrivial);
            if nontrivial {
                rep.count("splits_with_numbers_on_both_sides");
            }
            if code == "fr" && a.contains("neuf") && b.contains("neuf") {
                rep.count("fr_texts_with_neuf_on_both_sides");
            }
            if !failed && nontrivial && rep.want_sample() && rng.chance(1, 4000) {
                rep.sample(jobj! {"lang" => code, "A" => a.as_str(), "S" => s.as_str(), "B" => b.as_str(), "rewritten_at_10" => api.replace(&format!("{}{}{}", a, s, b), 10.0)});
            }
        }
        for i in 0..(n_punct / nw as u64) {
            if i % 128 == 0 && ctx.over_budget() {
                break;
            }
            let code = LANGS[(i % 7) as usize];
            let a = if rng.chance(1, 2) { rng.below(100) } else { gen::random_number(&mut rng, 6) };
            let b = if rng.chance(1, 2) { rng.below(100) } else { gen::random_number(&mut rng, 6) };
            if !spell::cardinal_in_domain(code, a) || !spell::cardinal_in_domain(code, b) {
                continue;
            }
            let pa = spell::cardinal(code, a);
            let pb = spell::cardinal(code, b);
            let api = ls.api(code);
            // conditioning on C01 for both numbers
            if api.replace(&pa, 0.0) != a.to_string() || api.replace(&pb, 0.0) != b.to_string() {
                rep.count("skipped_number_fails_C01");
                continue;
            }
            let p = rng.pick_str(&PUNCTS);
            crate::core::set_current(code, "replace_numbers_in_text", &format!("{}{}{}", pa, p, pb));
            rep.eval(hash_bytes(&[code.as_bytes(), pa.as_bytes(), p.as_bytes(), pb.as_bytes()]), true);
            if let Some(msg) = check_punct(&ls, code, a, b, &pa, &pb, p) {
                rep.violation(&format!("{}:punct:{:?}", code, p.trim()), jobj! {"kind" => "punct", "lang" => code, "a" => a, "b" => b, "pa" => pa.as_str(), "pb" => pb.as_str(), "p" => p}, format!("[{}] {}", code, msg));
            }
        }
    });
    if !ctx.quick() {
        super::legs::fuzz_leg(ctx, &mut rep, 45);
    }
    let rule = "clause 1: prefix-length sweep (A = L filler words for every L in 0..400, thorough 0..1200; B = a spelled multi-word number; counter prefix_length_sweep_cases); every pair of texts A, B of 1..2 words (thorough: B up to 3) over a 16/17-word alphabet per language around a fixed separator at thresholds 0 and 10 (counter exhaustive_small_alphabet_pairs); texts A, B from hostile text, linking sentences and the annotator-state templates (fr: determiner x number|filler x neuf x number|filler|virgule, several per text; en: o between number words / fillers / punctuation), S = 3..5 self-checked filler words ending a sentence, thresholds 0,5,10: rewrite(A S B) == rewrite(A) S rewrite(B); clause 2: spelled a, punctuation p (27 kinds, eight of them with no space on either side; each containing a non-space character other than - and ', or a dash set off by spaces on both sides), spelled b -> 'a p b'; non-trivial = both parts contain something that is rewritten / every punctuated pair";
    finish(ctx, rep, rule, &["separator words are fillers self-checked against the running library (never number words, linking words or annotator triggers)", "clause 2 is conditioned on both numbers passing their own C01 round-trip"], vec![])
}

pub fn replay(case: &J) -> Vec<String> {
    let ls = LangSet::new();
    let code = case.str_of("lang");
    let mut out = Vec::new();
    if case.str_of("kind") == "punct" {
        let a = case.get("a").and_then(|x| x.as_i64()).unwrap_or(0) as u64;
        let b = case.get("b").and_then(|x| x.as_i64()).unwrap_or(0) as u64;
        out.extend(check_punct(&ls, &code, a, b, &case.str_of("pa"), &case.str_of("pb"), &case.str_of("p")));
    } else {
        for &t in THRESHOLDS.iter() {
            out.extend(check_split(&ls, &code, &case.str_of("a"), &case.str_of("s"), &case.str_of("b"), t));
        }
    }
    out
}
