//! C11 Letter case never matters (metamorphic monitor: two executions under a meaning-preserving recasing).

use crate::api::LANGS;
use crate::core::{finish, run_sharded, Ctx, Outcome};
use crate::jobj;
use crate::json::J;
use crate::rng::{hash_bytes, Rng};

use super::{splice, workload_text, LangSet};

pub const THRESHOLDS: [f64; 4] = [0.0, 3.0, 10.0, f64::INFINITY];

fn eligible(c: char) -> bool {
    let u: Vec<char> = c.to_uppercase().collect();
    if u.len() != 1 {
        return false;
    }
    let back: Vec<char> = u[0].to_lowercase().collect();
    let low: Vec<char> = c.to_lowercase().collect();
    back == low && u[0].is_alphanumeric() == c.is_alphanumeric()
}

pub fn recase(rng: &mut Rng, s: &str) -> String {
    let mode = rng.below(3);
    let mut out = String::with_capacity(s.len());
    let mut at_word_start = true;
    for c in s.chars() {
        let up = match mode {
            0 => true,
            1 => at_word_start,
            _ => rng.chance(1, 2),
        };
        at_word_start = !c.is_alphanumeric();
        if up && eligible(c) {
            out.extend(c.to_uppercase());
        } else {
            out.push(c);
        }
    }
    out
}

pub fn check(ls: &LangSet, code: &str, s: &str, r: &str) -> (bool, usize, Option<String>) {
    if r.to_lowercase() != s.to_lowercase() {
        return (false, 0, None); // outside the quantifier domain (context-dependent case mapping)
    }
    let api = ls.api(code);
    let vs = api.validate(s);
    let vr = api.validate(r);
    if vs != vr {
        return (true, 0, Some(format!("text2digits({:?}) = {:?} but text2digits({:?}) = {:?}", s, vs, r, vr)));
    }
    let mut n = 0;
    for &t in THRESHOLDS.iter() {
        let (ts, os) = api.scan_text(s, t);
        let (tr, or) = api.scan_text(r, t);
        n = n.max(os.len());
        if ts.len() != tr.len() {
            return (true, n, Some(format!("token counts differ ({} vs {}) for {:?} / {:?}", ts.len(), tr.len(), s, r)));
        }
        if os != or {
            return (true, n, Some(format!("threshold {}: occurrences for {:?} are {} but for the recased {:?} they are {}", t, s, crate::api::show_occs(&os), r, crate::api::show_occs(&or))));
        }
        let rr = api.replace(r, t);
        match splice(&tr, &or) {
            Ok(expected) if expected == rr => {}
            other => return (true, n, Some(format!("threshold {}: rewrite of the recased text {:?} is {:?}, expected its own tokens spliced: {:?}", t, r, rr, other))),
        }
    }
    (true, n, None)
}

/// stream form: caller tokens with hints, the same stream with recased token texts
pub fn check_stream(ls: &LangSet, code: &str, toks: &[crate::api::IdTok], recased: &[crate::api::IdTok]) -> (usize, Option<String>) {
    let api = ls.api(code);
    let mut n = 0;
    for &t in THRESHOLDS.iter() {
        let a = api.find(toks, t);
        let b = api.find(recased, t);
        n = n.max(a.len());
        if a != b {
            return (n, Some(format!("stream, threshold {}: occurrences are {} but for the recased stream they are {} | stream: {} | recased: {}", t, crate::api::show_occs(&a), crate::api::show_occs(&b), crate::streams::show_stream(toks), crate::streams::show_stream(recased))));
        }
    }
    (n, None)
}

pub fn run(ctx: &Ctx) -> Outcome {
    let n_texts = ctx.n(600_000, 12_000_000);
    let mut rep = run_sharded(ctx, |w, nw, rep| {
        let ls = LangSet::new();
        let mut rng = Rng::derive(ctx.seed, "C11", w as u64);
        // bounded exhaustive part: every text of up to 3 (thorough: 4) words over the small alphabet of each language,
        // in its all-upper-case and its capitalised form
        let (n_small, cut) = crate::streams::for_each_small_stream(&ls.lex, if ctx.quick() { 3 } else { 4 }, w, nw, &|| ctx.elapsed() > ctx.budget_s * 0.4, &mut |code, toks| {
            let s: String = toks.iter().map(|t| t.text.as_str()).collect::<Vec<_>>().join(" ");
            for form in 0..2 {
                let r: String = if form == 0 { s.to_uppercase() } else { toks.iter().map(|t| crate::spell::capitalize(&t.text)).collect::<Vec<_>>().join(" ") };
                if r.to_lowercase() != s.to_lowercase() {
                    rep.count("skipped_case_mapping_not_reversible");
                    continue;
                }
                let (in_domain, n_occ, fail) = check(&ls, code, &s, &r);
                rep.eval(hash_bytes(&[code.as_bytes(), s.as_bytes(), r.as_bytes()]), in_domain && n_occ > 0 && r != s);
                if let Some(msg) = fail {
                    rep.violation(&format!("{}:{}", code, msg.split(':').next().unwrap_or("").chars().take(24).collect::<String>()), jobj! {"kind" => "recase", "lang" => code, "s" => s.as_str(), "r" => r.as_str()}, format!("[{}] {}", code, msg));
                }
            }
        });
        rep.add("exhaustive_small_alphabet_texts", n_small);
        if cut {
            rep.count("exhaustive_enumeration_cut_by_budget");
        }
        for i in 0..(n_texts / nw as u64) {
            if i % 128 == 0 && ctx.over_budget() {
                break;
            }
            let code = LANGS[(i % 7) as usize];
            let lex = ls.lexicon(code);
            if i % 4 == 3 {
                // stream form with hints (the hints sit on the same tokens in both streams)
                let opts = crate::streams::StreamOpts { random_case: false, nan_permille: 150, sep_permille: 80, ..crate::streams::StreamOpts::hinted(10) };
                let toks = crate::streams::gen_stream(&mut rng, lex, &opts);
                let mut ok = true;
                let recased: Vec<crate::api::IdTok> = toks
                    .iter()
                    .map(|t| {
                        let r = recase(&mut rng, &t.text);
                        if r.to_lowercase() != t.lower {
                            ok = false;
                        }
                        let mut n = crate::api::IdTok::new(t.id, &r);
                        n.sep = t.sep;
                        n.nan = t.nan;
                        n
                    })
                    .collect();
                if !ok {
                    rep.count("skipped_case_mapping_not_reversible");
                    continue;
                }
                crate::core::set_current(code, "find_numbers on a recased hinted stream", &crate::streams::show_stream(&recased));
                let (n_occ, fail) = check_stream(&ls, code, &toks, &recased);
                rep.eval(crate::streams::stream_hash(code, &recased), n_occ > 0);
                rep.count("hinted_stream_cases");
                if let Some(msg) = fail {
                    rep.violation(&format!("{}:stream", code), jobj! {"kind" => "recase-stream", "lang" => code, "tokens" => crate::streams::stream_json(&toks), "recased" => crate::streams::stream_json(&recased)}, format!("[{}] {}", code, msg));
                }
                continue;
            }
            let mut s = if i % 3 == 0 { crate::gen::linking_sentence(&mut rng, lex, 8) } else { workload_text(&mut rng, lex, 10) };
            if i % 512 == 5 {
                let words = 1500 + rng.usize(2500);
                s = format!("{}{}", crate::gen::long_filler_prefix(&mut rng, lex, words), s);
                rep.count("long_documents");
            }
            let r = recase(&mut rng, &s);
            crate::core::set_current(code, "find_numbers / replace_numbers_in_text / text2digits", &r);
            let (in_domain, n_occ, fail) = check(&ls, code, &s, &r);
            if !in_domain {
                rep.count("skipped_case_mapping_not_reversible");
            }
            rep.eval(hash_bytes(&[code.as_bytes(), s.as_bytes(), r.as_bytes()]), in_domain && n_occ > 0 && r != s);
            if let Some(msg) = fail {
                rep.violation(&format!("{}:{}", code, msg.split(':').next().unwrap_or("").chars().take(24).collect::<String>()), jobj! {"kind" => "recase", "lang" => code, "s" => s.as_str(), "r" => r.as_str()}, format!("[{}] {}", code, msg));
            } else if n_occ > 1 && rep.want_sample() && rng.chance(1, 4000) {
                rep.sample(jobj! {"lang" => code, "text" => s.as_str(), "recased" => r.as_str(), "rewritten_at_10" => ls.api(code).replace(&r, 10.0)});
            }
        }
    });
    if !ctx.quick() {
        super::legs::fuzz_leg(ctx, &mut rep, 45);
    }
    let rule = "cases = (text, recased text): every text of 1..3 (thorough 1..4) words over a 16-word alphabet per language in upper-case and capitalised form (counter exhaustive_small_alphabet_texts); texts from hostile text, annotator-state templates and lower-case sentences rich in linking words between small numbers; recasing = all upper / capitalised / per-character random, applied only to characters whose upper-then-lower mapping returns to themselves; compared: validation result, token count, occurrences tuple for tuple at thresholds 0,3,10,inf, and the rewrite of the recased text against the splice of its own tokens; a quarter of the cases are hinted caller-token streams (not-a-number and separation hints kept on the same tokens) compared before/after recasing; non-trivial = recasing changed the text and at least one number was recognised";
    finish(ctx, rep, rule, &["texts whose whole-string lowercase differs after recasing (context-dependent mappings such as final sigma) are outside the quantifier and skipped"], vec![])
}

pub fn replay(case: &J) -> Vec<String> {
    let ls = LangSet::new();
    if case.str_of("kind") == "recase-stream" {
        let a = crate::streams::stream_from_json(case.get("tokens").unwrap_or(&J::Null));
        let b = crate::streams::stream_from_json(case.get("recased").unwrap_or(&J::Null));
        return check_stream(&ls, &case.str_of("lang"), &a, &b).1.into_iter().collect();
    }
    check(&ls, &case.str_of("lang"), &case.str_of("s"), &case.str_of("r")).2.into_iter().collect()
}
