//! C12 Digit builder: history + executable positional model, failure atomicity, frozen guard, no panics.

use std::panic::{catch_unwind, AssertUnwindSafe};

use text2num::digit_string::DigitString;

use crate::api::LANGS;
use crate::core::{finish, run_sharded, Ctx, Outcome, Report};
use crate::jobj;
use crate::json::J;
use crate::rng::Rng;

use super::{workload_text, LangSet};

#[derive(Clone, Debug, PartialEq)]
pub enum Op {
    Put(String),
    PutDigitAt(u8, usize),
    Shift(usize),
    Fput(String),
    Push(String),
    Freeze,
    Reset,
}

impl Op {
    pub fn show(&self) -> String {
        match self {
            Op::Put(d) => format!("put:{}", d),
            Op::PutDigitAt(d, p) => format!("put_digit_at:{}@{}", *d as char, p),
            Op::Shift(p) => format!("shift:{}", p),
            Op::Fput(d) => format!("fput:{}", d),
            Op::Push(d) => format!("push:{}", d),
            Op::Freeze => "freeze".into(),
            Op::Reset => "reset".into(),
        }
    }
    pub fn parse(s: &str) -> Option<Op> {
        let (name, arg) = match s.find(':') {
            Some(i) => (&s[..i], &s[i + 1..]),
            None => (s, ""),
        };
        Some(match name {
            "put" => Op::Put(arg.to_string()),
            "put_digit_at" => {
                let (d, p) = arg.split_once('@')?;
                Op::PutDigitAt(d.as_bytes()[0], p.parse().ok()?)
            }
            "shift" => Op::Shift(arg.parse().ok()?),
            "fput" => Op::Fput(arg.to_string()),
            "push" => Op::Push(arg.to_string()),
            "freeze" => Op::Freeze,
            "reset" => Op::Reset,
            _ => return None,
        })
    }
}

/// The executable model: positional digit vector (most significant first, like the rendering), separate count of
/// leading zeros, frozen flag.
#[derive(Clone, Debug, Default, PartialEq)]
pub struct Model {
    pub buf: Vec<u8>,
    pub lz: usize,
    pub frozen: bool,
}

pub enum Expect {
    MustOk(Model),
    MustErr,
    /// documentation is silent for this argument/state: either outcome is accepted; on Ok the history ends
    Either,
}

fn all_zero(s: &[u8]) -> bool {
    s.iter().all(|&c| c == b'0')
}

impl Model {
    pub fn render(&self) -> String {
        let mut s = "0".repeat(self.lz);
        s.push_str(std::str::from_utf8(&self.buf).unwrap());
        s
    }
    pub fn step(&self, op: &Op) -> Expect {
        let mut m = self.clone();
        match op {
            Op::Freeze => {
                m.frozen = true;
                Expect::MustOk(m)
            }
            Op::Reset => Expect::MustOk(Model::default()),
            Op::Push(d) => {
                if self.frozen {
                    return Expect::Either; // not judged (DESIGN.md C12)
                }
                m.buf.extend_from_slice(d.as_bytes());
                Expect::MustOk(m)
            }
            Op::Put(d) => {
                let d = d.as_bytes();
                if self.frozen {
                    return Expect::MustErr;
                }
                if self.buf.is_empty() && d == b"0" {
                    m.lz += 1;
                    return Expect::MustOk(m);
                }
                if d == b"0" {
                    return Expect::MustErr; // zero only while the value is still zero
                }
                if d[0] == b'0' {
                    return Expect::Either; // multi-digit argument with a leading zero: undocumented
                }
                if self.buf.is_empty() {
                    m.buf = d.to_vec();
                    return Expect::MustOk(m);
                }
                let l = self.buf.len();
                if l < d.len() {
                    return Expect::Either; // buffer shorter than the digits: undocumented
                }
                if all_zero(&self.buf[l - d.len()..]) {
                    m.buf[l - d.len()..].copy_from_slice(d);
                    Expect::MustOk(m)
                } else {
                    Expect::MustErr
                }
            }
            Op::PutDigitAt(d, pos) => {
                if self.frozen {
                    return Expect::MustErr;
                }
                if *d == b'0' || *pos == 0 {
                    return Expect::Either; // precondition: non-nul digit, position > 0
                }
                let l = self.buf.len();
                if *pos >= l {
                    let mut nb = vec![b'0'; pos + 1];
                    nb[0] = *d;
                    nb[pos + 1 - l..].copy_from_slice(&self.buf);
                    m.buf = nb;
                    Expect::MustOk(m)
                } else if self.buf[l - 1 - pos] == b'0' {
                    m.buf[l - 1 - pos] = *d;
                    Expect::MustOk(m)
                } else {
                    Expect::MustErr
                }
            }
            Op::Shift(p) => {
                let p = *p;
                if self.frozen {
                    return Expect::MustErr;
                }
                if p == 0 {
                    return Expect::Either;
                }
                if self.buf.is_empty() {
                    m.buf = vec![b'1'];
                    m.buf.extend(std::iter::repeat(b'0').take(p));
                    return Expect::MustOk(m);
                }
                let l = self.buf.len();
                if l <= p {
                    m.buf.extend(std::iter::repeat(b'0').take(p));
                    return Expect::MustOk(m);
                }
                // rightmost p-digit group, or an implicit 1
                let mut group: Vec<u8> = self.buf[l - p..].to_vec();
                if all_zero(&group) {
                    group[p - 1] = b'1';
                }
                let lead = group.iter().take_while(|&&c| c == b'0').count();
                let sig = p - lead; // significant digits to move
                // destination: positions p .. p+sig-1 (from the right)
                if l < p + sig {
                    // destination reaches beyond the left edge
                    if all_zero(&self.buf[..l - p]) {
                        return Expect::Either;
                    }
                    return Expect::MustErr;
                }
                if !all_zero(&self.buf[l - p - sig..l - p]) {
                    return Expect::MustErr;
                }
                m.buf[l - p - sig..l - p].copy_from_slice(&group[lead..]);
                for c in m.buf[l - p..].iter_mut() {
                    *c = b'0';
                }
                Expect::MustOk(m)
            }
            Op::Fput(d) => {
                if self.frozen {
                    return Expect::MustErr;
                }
                let d = d.as_bytes();
                if m.buf.len() < d.len() {
                    let mut nb = vec![b'0'; d.len() - m.buf.len()];
                    nb.extend_from_slice(&m.buf);
                    m.buf = nb;
                }
                let l = m.buf.len();
                m.buf[l - d.len()..].copy_from_slice(d);
                Expect::MustOk(m)
            }
        }
    }
}

/// everything observable through the query methods
#[derive(Clone, Debug, PartialEq)]
pub struct Snapshot {
    pub rendering: String,
    pub len: usize,
    pub is_empty: bool,
    pub is_null: bool,
    pub peeks: Vec<Vec<u8>>,
    pub free: Vec<bool>,
    pub pos_free: Vec<bool>,
    pub range_free: Vec<bool>,
    pub is_ordinal: bool,
}

pub const QUERY_POSITIONS: [usize; 9] = [0, 1, 2, 3, 5, 6, 8, 12, 40];
pub const RANGES: [(usize, usize); 6] = [(0, 1), (1, 2), (3, 5), (6, 8), (0, 12), (9, 40)];

pub fn snapshot(b: &DigitString) -> Snapshot {
    Snapshot {
        rendering: b.to_string(),
        len: b.len(),
        is_empty: b.is_empty(),
        is_null: b.is_null(),
        peeks: QUERY_POSITIONS.iter().map(|&k| b.peek(k).to_vec()).collect(),
        free: QUERY_POSITIONS.iter().map(|&k| b.is_free(k)).collect(),
        pos_free: QUERY_POSITIONS.iter().map(|&k| b.is_position_free(k)).collect(),
        range_free: RANGES.iter().map(|&(i, j)| b.is_range_free(i, j)).collect(),
        is_ordinal: b.is_ordinal(),
    }
}

fn model_snapshot(m: &Model) -> Snapshot {
    let l = m.buf.len();
    let digit_free = |pos: usize| -> bool { pos >= l || m.buf[l - 1 - pos] == b'0' };
    Snapshot {
        rendering: m.render(),
        len: m.lz + l,
        is_empty: l == 0 && m.lz == 0,
        is_null: l == 0,
        peeks: QUERY_POSITIONS.iter().map(|&k| m.buf[l - k.min(l)..].to_vec()).collect(),
        free: QUERY_POSITIONS.iter().map(|&k| (l == 0 && m.lz == 0) || all_zero(&m.buf[l - k.min(l)..])).collect(),
        pos_free: QUERY_POSITIONS.iter().map(|&k| digit_free(k)).collect(),
        range_free: RANGES.iter().map(|&(i, j)| (i..=j).all(digit_free)).collect(),
        is_ordinal: false,
    }
}

fn apply_op(b: &mut DigitString, op: &Op) -> bool {
    match op {
        Op::Put(d) => b.put(d.as_bytes()).is_ok(),
        Op::PutDigitAt(d, p) => b.put_digit_at(*d, *p).is_ok(),
        Op::Shift(p) => b.shift(*p).is_ok(),
        Op::Fput(d) => b.fput(d.as_bytes()).is_ok(),
        Op::Push(d) => b.push(d.as_bytes()).is_ok(),
        Op::Freeze => {
            b.freeze();
            true
        }
        Op::Reset => {
            b.reset();
            true
        }
    }
}

fn nonzero_seq(s: &str) -> Vec<u8> {
    s.bytes().filter(|&c| c != b'0').collect()
}

fn is_subsequence(a: &[u8], b: &[u8]) -> bool {
    let mut it = b.iter();
    a.iter().all(|x| it.any(|y| y == x))
}

pub struct HistoryVerdict {
    pub steps_judged: usize,
    pub ended_undocumented: bool,
    pub renderings: Vec<String>,
    pub failure: Option<String>,
}

/// Run one history against the real builder and the model.
pub fn run_history(ops: &[Op]) -> HistoryVerdict {
    let mut v = HistoryVerdict { steps_judged: 0, ended_undocumented: false, renderings: Vec::new(), failure: None };
    let res = catch_unwind(AssertUnwindSafe(|| {
        let mut b = DigitString::new();
        let mut m = Model::default();
        let mut judged = 0usize;
        let mut renderings: Vec<String> = Vec::new();
        for (i, op) in ops.iter().enumerate() {
            let before = snapshot(&b);
            let ok = apply_op(&mut b, op);
            let after = snapshot(&b);
            judged += 1;
            let ctx = |msg: String| -> String { format!("step {} ({}): {}; state before {:?}, after {:?}", i, op.show(), msg, before.rendering, after.rendering) };
            // state invariants, independent of the operation
            if !after.rendering.bytes().all(|c| c.is_ascii_digit()) {
                return (judged, false, renderings, Some(ctx("rendering is not a string of ASCII digits".into())));
            }
            if after.len != after.rendering.len() {
                return (judged, false, renderings, Some(ctx(format!("len() = {} but the rendering has {} digits", after.len, after.rendering.len()))));
            }
            if !ok && after != before {
                return (judged, false, renderings, Some(ctx("the operation reported an error but changed what the queries observe".into())));
            }
            if m.frozen && matches!(op, Op::Put(_) | Op::PutDigitAt(..) | Op::Fput(_) | Op::Shift(_)) && ok {
                return (judged, false, renderings, Some(ctx("the builder is frozen but the operation was accepted".into())));
            }
            if ok && matches!(op, Op::Put(_) | Op::PutDigitAt(..) | Op::Shift(_)) && !is_subsequence(&nonzero_seq(&before.rendering), &nonzero_seq(&after.rendering)) {
                return (judged, false, renderings, Some(ctx("a previously placed non-zero digit was lost or reordered".into())));
            }
            match m.step(op) {
                Expect::MustErr => {
                    if ok {
                        return (judged, false, renderings, Some(ctx("the model (documentation) requires an error, the builder accepted".into())));
                    }
                }
                Expect::MustOk(nm) => {
                    if !ok {
                        return (judged, false, renderings, Some(ctx(format!("the model (documentation) requires success with rendering {:?}, the builder refused", nm.render()))));
                    }
                    let ms = model_snapshot(&nm);
                    if matches!(op, Op::Fput(_)) && ms.rendering != after.rendering {
                        return (judged, true, renderings, None); // fput's placement is not specified in detail: stop here
                    }
                    let mut ms2 = ms.clone();
                    ms2.is_ordinal = after.is_ordinal;
                    if ms2 != after {
                        return (judged, false, renderings, Some(ctx(format!("queries differ from the model: builder {:?} vs model {:?}", after, ms2))));
                    }
                    m = nm;
                }
                Expect::Either => {
                    if ok {
                        return (judged, true, renderings, None);
                    }
                }
            }
            renderings.push(after.rendering.clone());
        }
        (judged, false, renderings, None)
    }));
    match res {
        Ok((j, u, r, f)) => {
            v.steps_judged = j;
            v.ended_undocumented = u;
            v.renderings = r;
            v.failure = f;
        }
        Err(_) => {
            let (loc, msg) = crate::core::take_last_panic().unwrap_or(("?".into(), "?".into()));
            v.failure = Some(format!("a builder operation or query panicked at {}: {}", loc, msg));
        }
    }
    v
}

const PUT_ARGS: [&str; 30] = [
    "0", "0", "0", "1", "2", "5", "7", "9", "10", "11", "12", "19", "20", "30", "60", "70", "80", "90", "21", "99", "100", "200", "900", "101", "1000", "300000", "00", "05", "000", "14000",
];
const SHIFT_ARGS: [usize; 10] = [2, 2, 3, 3, 6, 9, 12, 1, 4, 0];

const FPUT_ARGS: [&str; 16] = ["70", "71", "90", "91", "99", "80", "5", "123", "0", "00", "05", "000", "1", "10", "100", "1000"];
const PUSH_ARGS: [&str; 6] = ["0", "1", "5", "9", "00", "12"];

pub fn random_history(rng: &mut Rng) -> Vec<Op> {
    let n = 1 + rng.usize(9);
    let mut ops = Vec::with_capacity(n);
    for _ in 0..n {
        let op = match rng.weighted(&[34, 12, 26, 6, 5, 4, 3]) {
            0 => Op::Put(rng.pick_str(&PUT_ARGS).to_string()),
            1 => Op::PutDigitAt(b'0' + if rng.chance(1, 12) { 0 } else { 1 + rng.below(9) as u8 }, rng.usize(7)),
            2 => Op::Shift(*rng.pick(&SHIFT_ARGS)),
            3 => Op::Fput(rng.pick_str(&FPUT_ARGS).to_string()),
            4 => Op::Push(rng.pick_str(&PUSH_ARGS).to_string()),
            5 => Op::Freeze,
            _ => Op::Reset,
        };
        ops.push(op);
    }
    ops
}

fn history_json(ops: &[Op]) -> J {
    J::Arr(ops.iter().map(|o| J::Str(o.show())).collect())
}

fn record_history(rep: &mut Report, label: &str, ops: &[Op], v: HistoryVerdict) {
    let h = crate::rng::hash_str(&ops.iter().map(|o| o.show()).collect::<Vec<_>>().join(","));
    rep.eval(h, v.steps_judged > 0);
    rep.add("steps_judged", v.steps_judged as u64);
    if v.ended_undocumented {
        rep.count("histories_ended_at_an_undocumented_case");
    }
    for r in v.renderings.iter().filter(|r| r.len() <= 64) {
        rep.seen_str("distinct_renderings_visited", r);
    }
    if let Some(msg) = v.failure {
        let op_name = msg.split('(').nth(1).and_then(|s| s.split(':').next()).unwrap_or("?").to_string();
        let class = if msg.contains("panicked") {
            "panic"
        } else if msg.contains("reported an error but changed") {
            "error-mutates"
        } else if msg.contains("frozen") {
            "frozen"
        } else if msg.contains("lost or reordered") {
            "digit-lost"
        } else {
            "model"
        };
        rep.violation(&format!("{}:{}:{}", label, class, op_name), jobj! {"kind" => "history", "ops" => history_json(ops)}, format!("history [{}]: {}", ops.iter().map(|o| o.show()).collect::<Vec<_>>().join(", "), msg));
    } else if rep.want_sample() && v.steps_judged >= 4 && h % 20000 == 0 {
        rep.sample(jobj! {"history" => history_json(ops), "renderings_after_each_step" => J::Arr(v.renderings.iter().map(|r| J::Str(r.clone())).collect())});
    }
}

/// the history workload, shared by the release run and the debug-profile leg
pub fn history_workload(ctx: &Ctx, n_hist: u64, label: &str) -> Report {
    run_sharded(ctx, |w, nw, rep| {
        let mut rng = Rng::derive(ctx.seed, label, w as u64);
        for i in 0..(n_hist / nw as u64) {
            if i % 1024 == 0 && ctx.over_budget() {
                break;
            }
            let mut ops = random_history(&mut rng);
            if i % 64 == 63 {
                // a long run of one operation inside a short history: counters and lengths that only overflow or wrap
                // after hundreds of steps (256 dictated zeros, 70 000 pushed digits)
                let at = rng.usize(ops.len());
                let reps = match rng.below(200) {
                    // (a 65 000-step history costs about a second: every step renders the whole builder)
                    0 if i % 8192 == 63 => 65_530 + rng.usize(20),
                    0..=60 => 250 + rng.usize(12),
                    61..=120 => 16 + rng.usize(120),
                    _ => 2 + rng.usize(14),
                };
                let op = if rng.chance(1, 2) { Op::Put("0".into()) } else { ops[at].clone() };
                let mut long: Vec<Op> = ops[..at].to_vec();
                long.extend(std::iter::repeat(op).take(reps));
                long.extend(ops[at..].iter().cloned());
                ops = long;
                rep.count("histories_with_a_long_run_of_one_operation");
                if reps > 60_000 {
                    rep.count("histories_with_a_run_longer_than_65535");
                }
            }
            let v = run_history(&ops);
            record_history(rep, label, &ops, v);
        }
    })
}

/// every operation the random histories draw from, each argument once
pub fn op_alphabet() -> Vec<Op> {
    let mut v: Vec<Op> = Vec::new();
    let mut seen = std::collections::BTreeSet::new();
    for a in PUT_ARGS.iter() {
        if seen.insert(*a) {
            v.push(Op::Put(a.to_string()));
        }
    }
    for d in [b'0', b'1', b'5', b'9'] {
        for pos in 0..7usize {
            v.push(Op::PutDigitAt(d, pos));
        }
    }
    let mut seen_s = std::collections::BTreeSet::new();
    for p in SHIFT_ARGS.iter() {
        if seen_s.insert(*p) {
            v.push(Op::Shift(*p));
        }
    }
    for a in FPUT_ARGS.iter() {
        v.push(Op::Fput(a.to_string()));
    }
    for a in PUSH_ARGS.iter() {
        v.push(Op::Push(a.to_string()));
    }
    v.push(Op::Freeze);
    v.push(Op::Reset);
    v
}

/// bounded exhaustive part: EVERY history of exactly `depth` operations over the alphabet (shorter ones are their
/// prefixes, judged step by step on the way)
pub fn exhaustive_workload(ctx: &Ctx, depth: u32, label: &str) -> Report {
    let alpha = op_alphabet();
    let k = alpha.len() as u64;
    let total = k.pow(depth);
    let alpha = &alpha;
    let mut rep = run_sharded(ctx, |w, nw, rep| {
        let mut done = 0u64;
        let mut idx = w as u64;
        while idx < total {
            if done % 4096 == 0 && ctx.over_budget() {
                rep.count("exhaustive_enumeration_cut_by_budget");
                break;
            }
            let mut x = idx;
            let mut ops: Vec<Op> = Vec::with_capacity(depth as usize);
            for _ in 0..depth {
                ops.push(alpha[(x % k) as usize].clone());
                x /= k;
            }
            let v = run_history(&ops);
            record_history(rep, label, &ops, v);
            rep.count(&format!("exhaustive_histories_of_length_{}", depth));
            done += 1;
            idx += nw as u64;
        }
    });
    rep.add(&format!("exhaustive_alphabet_size_depth_{}", depth), k);
    rep.add(&format!("exhaustive_histories_expected_depth_{}", depth), total);
    rep
}

/// builder states that cross the public `apply(word, &mut DigitString)` boundary during text workloads
fn boundary_workload(ctx: &Ctx, n_texts: u64) -> Report {
    run_sharded(ctx, |w, nw, rep| {
        let ls = LangSet::new();
        let mut rng = Rng::derive(ctx.seed, "C12-boundary", w as u64);
        for i in 0..(n_texts / nw as u64) {
            if i % 256 == 0 && ctx.over_budget() {
                break;
            }
            let code = LANGS[(i % 7) as usize];
            let lex = ls.lexicon(code);
            let s = workload_text(&mut rng, lex, 10);
            crate::core::set_current(code, "find_numbers through Observed", &s);
            let (_occ, log) = ls.api(code).scan_observed(&s, 0.0);
            let mut judged = false;
            for e in &log {
                judged = true;
                rep.count("apply_boundary_states_checked");
                rep.seen_str("distinct_renderings_at_apply_boundary", &e.after);
                if !e.after.bytes().all(|c| c.is_ascii_digit()) || e.after_len != e.after.len() {
                    rep.violation(
                        &format!("boundary:{}", code),
                        jobj! {"kind" => "boundary", "lang" => code, "text" => s.as_str(), "word" => e.word.as_str()},
                        format!("[{}] after apply({:?}) the builder renders {:?} with len() = {} (text {:?})", code, e.word, e.after, e.after_len, s),
                    );
                }
            }
            rep.eval(crate::rng::hash_bytes(&[code.as_bytes(), b"boundary", s.as_bytes()]), judged);
        }
    })
}

pub fn run(ctx: &Ctx) -> Outcome {
    let n_hist = ctx.n(5_000_000, 120_000_000);
    let mut rep = history_workload(ctx, n_hist, "C12-release");
    // bounded exhaustive: every history of 3 operations (quick) / 4 operations (thorough, budget permitting)
    rep.merge(exhaustive_workload(ctx, 3, "C12-exhaustive"));
    if !ctx.quick() {
        rep.merge(exhaustive_workload(ctx, 4, "C12-exhaustive"));
    }
    rep.merge(boundary_workload(ctx, ctx.n(200_000, 4_000_000)));
    // debug-profile leg (overflow checks, debug_assert): the same history workload in a child process
    super::legs::run_leg(ctx, &mut rep, "debug", "T2N_LEG_DEBUG", &["c12", &ctx.seed.to_string(), &ctx.n(300_000, 6_000_000).to_string()], 600);
    let rule = "histories = every sequence of 3 operations (thorough: 4, budget permitting; counters exhaustive_*) over the full argument alphabet, and random sequences of 1..9 operations (one in 64 with one operation repeated up to 65 549 times) over put / put_digit_at / shift / fput / push / freeze / reset with arguments biased to zeros and to the widths the interpreters use (2,3,6,9,12); after every step: rendering is ASCII digits, len() agrees, on Err all queries (to_string,len,is_empty,is_null,peek,is_free,is_position_free,is_range_free,is_ordinal at 9 positions / 6 ranges) unchanged, frozen => refused, non-zero digits kept in order, and status + all queries equal to the positional model wherever the documentation settles the case (undocumented cases end the history); run in the release profile and again in a debug-profile child (overflow checks, debug_assert); plus the state invariants on every builder state crossing apply() in text workloads; non-trivial = history with at least one judged step";
    finish(ctx, rep, rule, &["push after freeze, put with a leading-zero multi-digit argument, put on a shorter buffer, put_digit_at with digit 0 or position 0, shift(0) and a shift whose destination lies beyond the left edge are not judged (documentation silent)", "fput must succeed unless frozen; its placement is compared with the overwrite model and a divergence only ends the history"], vec![])
}

pub fn replay(case: &J) -> Vec<String> {
    if case.str_of("kind") == "boundary" {
        let ls = LangSet::new();
        let code = case.str_of("lang");
        let (_o, log) = ls.api(&code).scan_observed(&case.str_of("text"), 0.0);
        return log.iter().filter(|e| !e.after.bytes().all(|c| c.is_ascii_digit()) || e.after_len != e.after.len()).map(|e| format!("after apply({:?}): {:?} len {}", e.word, e.after, e.after_len)).collect();
    }
    let ops: Vec<Op> = case.get("ops").and_then(|a| a.as_arr()).map(|a| a.iter().filter_map(|x| x.as_str().and_then(Op::parse)).collect()).unwrap_or_default();
    run_history(&ops).failure.into_iter().collect()
}

/// child-process entry: `worker c12 <seed> <n_histories> <result_file>`
pub fn worker(args: &[String]) -> i32 {
    let seed: u64 = args.first().and_then(|s| s.parse().ok()).unwrap_or(1);
    let n: u64 = args.get(1).and_then(|s| s.parse().ok()).unwrap_or(100_000);
    let out = args.get(2).cloned().unwrap_or_default();
    let ctx = super::legs::child_ctx("C12", seed);
    let rep = history_workload(&ctx, n, "C12-debug");
    super::legs::write_child_report(&out, &rep)
}
