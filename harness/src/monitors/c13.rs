//! C13 Language facade behaves exactly as the concrete interpreter; ISO codes resolve (differential monitor).

use crate::api::{self, Api, LANGS};
use crate::core::{finish, run_sharded, Ctx, Outcome};
use crate::jobj;
use crate::json::J;
use crate::lexicon::Lexicon;
use crate::rng::{hash_bytes, Rng};
use crate::spell;
use crate::streams::{self, gen_stream, StreamOpts};

use super::{workload_text, LangSet, TEXT_THRESHOLDS};

pub fn diff_text(a: &dyn Api, b: &dyn Api, s: &str) -> Option<String> {
    let (va, vb) = (a.validate(s), b.validate(s));
    if va != vb {
        return Some(format!("text2digits({:?}): concrete {:?} vs other {:?}", s, va, vb));
    }
    for &t in TEXT_THRESHOLDS.iter() {
        let (ra, rb) = (a.replace(s, t), b.replace(s, t));
        if ra != rb {
            return Some(format!("replace_numbers_in_text({:?}, {}): concrete {:?} vs other {:?}", s, t, ra, rb));
        }
        let (ta, oa) = a.scan_text(s, t);
        let (tb, ob) = b.scan_text(s, t);
        if ta != tb {
            return Some(format!("ambiguity annotation of {:?} differs: concrete {:?} vs other {:?}", s, ta.iter().filter(|x| x.nan).map(|x| x.text.clone()).collect::<Vec<_>>(), tb.iter().filter(|x| x.nan).map(|x| x.text.clone()).collect::<Vec<_>>()));
        }
        if oa != ob {
            return Some(format!("find_numbers({:?}, {}): concrete {} vs other {}", s, t, api::show_occs(&oa), api::show_occs(&ob)));
        }
    }
    None
}

pub fn diff_stream(a: &dyn Api, b: &dyn Api, toks: &[api::IdTok]) -> Option<String> {
    for &t in [0.0, 10.0, 3.0].iter() {
        let (fa, fb) = (a.find(toks, t), b.find(toks, t));
        if fa != fb {
            return Some(format!("find_numbers at {}: concrete {} vs other {}", t, api::show_occs(&fa), api::show_occs(&fb)));
        }
        let (pa, sa) = a.find_iter_steps(toks, t, 1);
        let (pb, sb) = b.find_iter_steps(toks, t, 1);
        let key = |s: &Vec<api::IterStep>| s.iter().map(|x| (x.occ.clone(), x.pulled_after)).collect::<Vec<_>>();
        if pa != pb || key(&sa) != key(&sb) {
            return Some(format!("find_numbers_iter at {}: the two iterators yield or pull differently", t));
        }
        let (ra, rb) = (a.replace_stream(toks.to_vec(), t), b.replace_stream(toks.to_vec(), t));
        if ra != rb {
            return Some(format!("replace_numbers_in_stream at {}: outputs differ", t));
        }
        let mut aa = toks.to_vec();
        let mut ab = toks.to_vec();
        a.annotate(&mut aa);
        b.annotate(&mut ab);
        if aa != ab {
            return Some("basic_annotate on the same tokens differs".to_string());
        }
    }
    None
}

pub fn diff_builder(a: &dyn Api, b: &dyn Api, words: &[&str], dec_from: usize) -> Option<String> {
    let (pa, pb) = (a.probe_builder(words, dec_from), b.probe_builder(words, dec_from));
    if pa != pb {
        return Some(format!("trait methods on twin builders for words {:?} (decimal from {}): concrete {:?} vs other {:?}", words, dec_from, pa, pb));
    }
    for w in words {
        if a.is_linking(w) != b.is_linking(w) || a.is_decimal_sep(w) != b.is_decimal_sep(w) || a.marker_of(w) != b.marker_of(w) {
            return Some(format!("is_linking / is_decimal_sep / get_morph_marker differ on {:?}", w));
        }
    }
    None
}

/// corpus that tells the seven languages apart
pub fn discriminating_corpus(code: &str) -> Vec<String> {
    let mut v: Vec<String> = Vec::new();
    for n in [0u64, 1, 2, 3, 7, 8, 11, 16, 21, 28, 70, 80, 99, 100, 101, 1000, 1999, 1_000_000] {
        v.push(spell::cardinal(code, n));
    }
    for n in [1u64, 3, 21, 100] {
        for o in spell::ordinals(code, n) {
            v.push(o.text);
        }
    }
    let info = spell::info(code);
    v.push(format!("{} {} {}", spell::cardinal(code, 3), info.sep, spell::fraction(code, "14").unwrap()));
    v
}

fn corpus_signature(a: &dyn Api, corpus: &[String]) -> Vec<String> {
    corpus.iter().map(|p| format!("{:?}|{}|{}", a.validate(p), a.replace(p, 0.0), a.replace(&format!("{} {}", p, p), 10.0))).collect()
}

pub fn check_lookup(code: &str) -> (usize, Option<String>) {
    let conc = api::concrete(code);
    let corpus = discriminating_corpus(code);
    let want = corpus_signature(conc.as_ref(), &corpus);
    let got = match api::lookup(code) {
        None => return (0, Some(format!("get_interpreter_for({:?}) returns None for a built-in language", code))),
        Some(l) => corpus_signature(l.as_ref(), &corpus),
    };
    if want != got {
        let i = want.iter().zip(got.iter()).position(|(a, b)| a != b).unwrap_or(0);
        return (0, Some(format!("get_interpreter_for({:?}) does not behave as that language: on {:?} concrete gives {} but the looked-up interpreter gives {}", code, corpus[i], want[i], got[i])));
    }
    let mut distinguished = 0;
    for other in LANGS {
        if other != code && corpus_signature(api::concrete(other).as_ref(), &corpus) != want {
            distinguished += 1;
        }
    }
    (distinguished, None)
}

pub fn non_codes(rng: &mut Rng) -> Vec<String> {
    let mut v: Vec<String> = vec!["".into(), " ".into(), "12".into(), "0".into(), "日本".into(), "--".into(), "??".into(), "\u{0}".into(), "französisch".into(), "xxxxxxxxxxxx".into(), "qqqqqqqqq".into()];
    // bounded exhaustive part: every string of one or two lower-case ASCII letters that is not one of the seven codes
    for a in b'a'..=b'z' {
        v.push(char::from(a).to_string());
        for b in b'a'..=b'z' {
            let c = format!("{}{}", char::from(a), char::from(b));
            if !LANGS.contains(&c.as_str()) {
                v.push(c);
            }
        }
    }
    // every other string of two printable ASCII characters (digits, punctuation, mixed), except the case variants of the
    // seven codes, which are tag-like and not judged
    for a in 0x20u8..0x7f {
        for b in 0x20u8..0x7f {
            let c = format!("{}{}", char::from(a), char::from(b));
            if !LANGS.contains(&c.to_lowercase().as_str()) && !(a.is_ascii_lowercase() && b.is_ascii_lowercase()) {
                v.push(c);
            }
        }
    }
    // near misses of the real codes: padded, truncated, doubled, with a control character (a different case or a
    // region / script subtag is tag-like and not judged, see the assumptions)
    for code in LANGS {
        for f in [" {}", "{} ", "{}\n", "\t{}", "{}\u{0}", "{}{}", "{}.", "'{}'", "{}\u{a0}", "\u{feff}{}"] {
            v.push(f.replace("{}", code));
        }
        v.push(code[..1].to_string());
        v.push(code[1..].to_string());
        v.push(code.chars().rev().collect());
    }
    v.retain(|c| !LANGS.contains(&c.as_str()));
    for _ in 0..40 {
        let len = 9 + rng.usize(12);
        v.push((0..len).map(|_| char::from(b'a' + rng.below(26) as u8)).collect());
        let len = 1 + rng.usize(6);
        v.push((0..len).map(|_| char::from(b'0' + rng.below(10) as u8)).collect());
        let len = 1 + rng.usize(4);
        v.push((0..len).map(|_| *rng.pick(&['!', '.', '#', '日', '😀', ' ', '_'])).collect());
    }
    v
}

fn builder_words(rng: &mut Rng, lex: &Lexicon) -> Vec<String> {
    let k = 1 + rng.usize(5);
    (0..k)
        .map(|_| {
            let w: &str = match rng.below(14) {
                0 => lex.conj,
                1 => lex.sep,
                2 | 3 if !lex.ordinal_words.is_empty() => rng.pick(&lex.ordinal_words).as_str(),
                4 => rng.pick(&lex.fillers).as_str(),
                5 => lex.zero,
                12 | 13 => rng.pick(&lex.linking).as_str(),
                _ => rng.pick(&lex.number_words).as_str(),
            };
            // one word in five is a near miss of the vocabulary (accents folded, a letter dropped or doubled ...): the
            // two paths must also agree on what they refuse
            if rng.chance(1, 5) {
                crate::gen::near_miss(rng, w)
            } else {
                w.to_string()
            }
        })
        .collect()
}

pub fn run(ctx: &Ctx) -> Outcome {
    let n_cases = ctx.n(600_000, 12_000_000);
    let mut rep = run_sharded(ctx, |w, nw, rep| {
        let ls = LangSet::new();
        let facades: Vec<Box<dyn Api>> = LANGS.iter().map(|c| api::facade(c)).collect();
        let looked: Vec<Option<Box<dyn Api>>> = LANGS.iter().map(|c| api::lookup(c)).collect();
        let mut rng = Rng::derive(ctx.seed, "C13", w as u64);
        // bounded exhaustive part: every stream of 1..4 (thorough 1..5) tokens over the small alphabet of each language,
        // through the concrete type, the facade value and the looked-up value: as stream, as text, and word by word on
        // twin builders (integer part, and with the decimal part starting at every position)
        let (n_small, cut) = streams::for_each_small_stream(&ls.lex, if ctx.quick() { 4 } else { 5 }, w, nw, &|| ctx.elapsed() > ctx.budget_s * 0.4, &mut |code, toks| {
            let li = LANGS.iter().position(|c| *c == code).unwrap_or(0);
            let conc = ls.api(code);
            let mut others: Vec<(&str, &dyn Api)> = vec![("Language::<variant>", facades[li].as_ref())];
            if let Some(l) = &looked[li] {
                others.push(("get_interpreter_for(code)", l.as_ref()));
            }
            let s: String = toks.iter().map(|t| t.text.as_str()).collect::<Vec<_>>().join(" ");
            let words: Vec<&str> = toks.iter().map(|t| t.lower.as_str()).collect();
            rep.eval(streams::stream_hash(code, toks) ^ 0xe4, true);
            for (name, o) in &others {
                let mut fail = diff_stream(conc, *o, toks).map(|m| ("stream", m));
                if fail.is_none() {
                    fail = diff_text(conc, *o, &s).map(|m| ("text", m));
                }
                if fail.is_none() {
                    for dec_from in 0..=words.len() {
                        if let Some(m) = diff_builder(conc, *o, &words, dec_from) {
                            fail = Some(("builder", m));
                            break;
                        }
                    }
                }
                if let Some((kind, msg)) = fail {
                    rep.violation(&format!("{}:{}:{}", code, kind, name), jobj! {"kind" => "text", "lang" => code, "text" => s.as_str()}, format!("[{} via {}] {} | words: {:?}", code, name, msg, words));
                }
            }
        });
        rep.add("exhaustive_small_alphabet_streams", n_small);
        if cut {
            rep.count("exhaustive_enumeration_cut_by_budget");
        }
        for i in 0..(n_cases / nw as u64) {
            if i % 128 == 0 && ctx.over_budget() {
                break;
            }
            let li = (i % 7) as usize;
            let code = LANGS[li];
            let lex = ls.lexicon(code);
            let conc = ls.api(code);
            // the facade value, and (when resolvable) the value returned by the code lookup
            let mut others: Vec<(&str, &dyn Api)> = vec![("Language::<variant>", facades[li].as_ref())];
            if let Some(l) = &looked[li] {
                others.push(("get_interpreter_for(code)", l.as_ref()));
            }
            match i % 4 {
                3 => {
                    // short number-like phrases straight into the validator (the only caller of exec_group)
                    let k = 1 + rng.usize(4);
                    let phrase: String = if rng.chance(1, 3) {
                        // a complete spelled number of any size in any claimed variant (the long glued words of de / nl / it
                        // included), cardinal or ordinal
                        let nd = 1 + rng.below(12) as u32;
                        let n = crate::gen::random_number(&mut rng, nd);
                        if rng.chance(1, 4) && n >= 1 && n <= spell::info(code).ord_max {
                            let os = spell::ordinals(code, n);
                            if os.is_empty() { spell::cardinal(code, n) } else { os[rng.usize(os.len())].text.clone() }
                        } else {
                            let vs = spell::cardinal_variants(code, n);
                            vs[rng.usize(vs.len())].text.clone()
                        }
                    } else {
                        (0..k)
                            .map(|_| match rng.below(10) {
                                0 | 1 => lex.conj.to_string(),
                                2 => lex.zero.to_string(),
                                3 if !lex.ordinal_words.is_empty() => rng.pick(&lex.ordinal_words).clone(),
                                _ => rng.pick(&lex.number_words).clone(),
                            })
                            .collect::<Vec<_>>()
                            .join(" ")
                    };
                    crate::core::set_current(code, "facade vs concrete (phrase)", &phrase);
                    rep.eval(hash_bytes(&[code.as_bytes(), b"p", phrase.as_bytes()]), true);
                    for (name, o) in &others {
                        let (va, vb) = (conc.validate(&phrase), o.validate(&phrase));
                        if let Some(msg) = diff_text(conc, *o, &phrase) {
                            rep.violation(&format!("{}:phrase-text:{}", code, name), jobj! {"kind" => "text", "lang" => code, "text" => phrase.as_str()}, format!("[{} via {}] {}", code, name, msg));
                        }
                        if va != vb {
                            rep.violation(&format!("{}:phrase:{}", code, name), jobj! {"kind" => "text", "lang" => code, "text" => phrase.as_str()}, format!("[{} via {}] text2digits({:?}): concrete {:?} vs other {:?}", code, name, phrase, va, vb));
                        }
                    }
                    rep.count("phrase_cases");
                }
                0 => {
                    let s = workload_text(&mut rng, lex, 10);
                    crate::core::set_current(code, "facade vs concrete (text)", &s);
                    rep.eval(hash_bytes(&[code.as_bytes(), b"t", s.as_bytes()]), true);
                    for (name, o) in &others {
                        if let Some(msg) = diff_text(conc, *o, &s) {
                            rep.violation(&format!("{}:text:{}", code, name), jobj! {"kind" => "text", "lang" => code, "text" => s.as_str()}, format!("[{} via {}] {}", code, name, msg));
                        }
                    }
                    rep.count("text_cases");
                }
                1 => {
                    let toks = gen_stream(&mut rng, lex, &StreamOpts::hinted(12));
                    crate::core::set_current(code, "facade vs concrete (stream)", &streams::show_stream(&toks));
                    rep.eval(streams::stream_hash(code, &toks) ^ 0x5555, true);
                    for (name, o) in &others {
                        if let Some(msg) = diff_stream(conc, *o, &toks) {
                            rep.violation(&format!("{}:stream:{}", code, name), jobj! {"kind" => "stream", "lang" => code, "tokens" => streams::stream_json(&toks)}, format!("[{} via {}] {} | stream: {}", code, name, msg, streams::show_stream(&toks)));
                        }
                    }
                    rep.count("stream_cases");
                }
                _ => {
                    let owned = builder_words(&mut rng, lex);
                    let words: Vec<&str> = owned.iter().map(|w| w.as_str()).collect();
                    let dec_from = if rng.chance(1, 3) { rng.usize(words.len() + 1) } else { words.len() };
                    crate::core::set_current(code, "facade vs concrete (trait methods)", &words.join(" "));
                    rep.eval(hash_bytes(&[code.as_bytes(), b"b", words.join(" ").as_bytes(), &[dec_from as u8]]), true);
                    for (name, o) in &others {
                        if let Some(msg) = diff_builder(conc, *o, &words, dec_from) {
                            rep.violation(
                                &format!("{}:builder:{}", code, name),
                                jobj! {"kind" => "builder", "lang" => code, "words" => J::Arr(words.iter().map(|w| J::from(*w)).collect()), "dec_from" => dec_from},
                                format!("[{} via {}] {}", code, name, msg),
                            );
                        }
                    }
                    rep.count("trait_method_cases");
                }
            }
        }
    });
    // code lookup
    let mut rng = Rng::derive(ctx.seed, "C13-lookup", 0);
    for code in LANGS {
        rep.eval(hash_bytes(&[b"lookup", code.as_bytes()]), true);
        let (distinguished, fail) = check_lookup(code);
        rep.add("lookup_other_languages_distinguished_by_corpus", distinguished as u64);
        if let Some(msg) = fail {
            rep.violation(&format!("lookup:{}", code), jobj! {"kind" => "lookup", "code" => code}, msg);
        } else if distinguished < 6 {
            rep.inconclusive.push(format!("discriminating corpus of {} separates only {} of the 6 other languages", code, distinguished));
        }
    }
    for c in non_codes(&mut rng) {
        rep.eval(hash_bytes(&[b"noncode", c.as_bytes()]), true);
        rep.count("non_codes_tried");
        if text2num::get_interpreter_for(&c).is_some() {
            rep.violation("lookup:non-code", jobj! {"kind" => "non-code", "code" => c.as_str()}, format!("get_interpreter_for({:?}) returns an interpreter for a string that is not a language code", c));
        }
    }
    rep.sample(jobj! {"lookup" => "de", "corpus_head" => J::Arr(discriminating_corpus("de").into_iter().take(6).map(J::Str).collect())});
    if !ctx.quick() {
        super::legs::fuzz_leg(ctx, &mut rep, 45);
    }
    let rule = "differential: every stream of 1..4 (thorough 1..5) tokens over a 16/17-word alphabet per language as stream, text and word-by-word builder probe with every decimal start (counter exhaustive_small_alphabet_streams); for each of the 7 languages the concrete interpreter type vs the Language facade value (and vs the value returned by get_interpreter_for) on hostile / linking / annotator-state texts (validate, rewrite and find at 5 thresholds, annotation flags), hinted token streams (batch, lazy iterator incl. pull counts, stream rewrite, basic_annotate on caller tokens) and the eight trait methods called directly on twin builders (status, rendering, marker, flags, formatted text, value); lookup: the 7 ISO 639-1 codes behave as their language on a corpus that separates all 7 languages; None asserted only for strings that cannot be a language tag (empty, digits, symbols, > 8 letters); non-trivial = every case compares at least two executions";
    finish(ctx, rep, rule, &["\"EN\", \"en-US\", \"eng\" and similar tag-like strings are not judged"], vec![])
}

pub fn replay(case: &J) -> Vec<String> {
    let code = case.str_of("lang");
    let mut out = Vec::new();
    match case.str_of("kind").as_str() {
        "lookup" => out.extend(check_lookup(&case.str_of("code")).1),
        "non-code" => {
            if text2num::get_interpreter_for(&case.str_of("code")).is_some() {
                out.push("still resolves".to_string());
            }
        }
        kind => {
            let conc = api::concrete(&code);
            let mut others: Vec<Box<dyn Api>> = vec![api::facade(&code)];
            if let Some(l) = api::lookup(&code) {
                others.push(l);
            }
            for o in &others {
                match kind {
                    "text" => out.extend(diff_text(conc.as_ref(), o.as_ref(), &case.str_of("text"))),
                    "stream" => out.extend(diff_stream(conc.as_ref(), o.as_ref(), &streams::stream_from_json(case.get("tokens").unwrap_or(&J::Null)))),
                    _ => {
                        let ws: Vec<String> = case.get("words").and_then(|a| a.as_arr()).map(|a| a.iter().map(|x| x.as_str().unwrap_or("").to_string()).collect()).unwrap_or_default();
                        let wr: Vec<&str> = ws.iter().map(|s| s.as_str()).collect();
                        let d = case.get("dec_from").and_then(|x| x.as_i64()).unwrap_or(0) as usize;
                        out.extend(diff_builder(conc.as_ref(), o.as_ref(), &wr, d));
                    }
                }
            }
        }
    }
    out
}
