//! C14 Interpreters are stateless, pure, shareable across threads, and silent.
//!
//! (1) history independence (one long-lived interpreter vs a second one vs freshly built ones),
//! (2) sharing: N threads replay pre-computed scripts on the same shared interpreters (release in-process; TSan, ASan
//!     and Miri legs in child processes), (3) the `Send + Sync` build probe, (4) silence of stdout/stderr observed at
//!     the file descriptors of a worker process.

use std::process::Command;
use std::sync::atomic::{AtomicUsize, Ordering};
use std::sync::Arc;

use text2num::digit_string::DigitString;

use crate::api::{self, Api, LANGS};
use crate::core::{finish, Ctx, Outcome, Report};
use crate::gen;
use crate::jobj;
use crate::json::{self, J};
use crate::rng::{hash_bytes, Rng};
use crate::spell;

use super::legs::{self, run_child};
use super::{workload_text, LangSet};

#[derive(Clone, Debug)]
pub struct Call {
    pub lang: usize,
    pub kind: u8, // 0 validate, 1 replace, 2 scan
    pub text: String,
    pub t: f64,
}

pub fn perform(a: &dyn Api, c: &Call) -> String {
    match c.kind {
        0 => format!("{:?}", a.validate(&c.text)),
        1 => a.replace(&c.text, c.t),
        2 => {
            let (toks, occs) = a.scan_text(&c.text, c.t);
            format!("{}|{}", toks.iter().filter(|t| t.nan).count(), api::show_occs(&occs))
        }
        _ => {
            // lazy search consumed only partially, then dropped (whatever it had started to read is abandoned)
            let toks: Vec<crate::api::IdTok> = c.text.split_whitespace().enumerate().map(|(i, w)| crate::api::IdTok::new(i as u64, w)).collect();
            let first = a.find_iter_first(&toks, c.t, 1);
            api::show_occs(&first)
        }
    }
}

fn show_call(c: &Call) -> String {
    format!("{} {}({:?}, {})", LANGS[c.lang], ["text2digits", "replace_numbers_in_text", "find_numbers", "find_numbers_iter(first occurrence only, then dropped)"][(c.kind as usize).min(3)], c.text, c.t)
}

fn call_json(c: &Call) -> J {
    jobj! {"lang" => LANGS[c.lang], "call" => c.kind as i64, "text" => c.text.as_str(), "threshold" => format!("{}", c.t)}
}

/// A script aimed at state that could survive between calls: failing validations next to valid ones, the same text at
/// different thresholds, annotator-state texts, long compounds next to short words, alternating languages.
pub fn make_script(rng: &mut Rng, ls: &LangSet, n: usize, small: bool) -> Vec<Call> {
    let mut v: Vec<Call> = Vec::with_capacity(n);
    while v.len() < n {
        let li = rng.usize(7);
        let code = LANGS[li];
        let lex = ls.lexicon(code);
        let text = match rng.below(10) {
            0 | 1 => workload_text(rng, lex, if small { 5 } else { 10 }),
            2 => spell::cardinal(code, gen::random_number(rng, if small { 4 } else { 12 })),
            3 => {
                let n = 1 + gen::random_number(rng, 5) % spell::info(code).ord_max;
                let os = spell::ordinals(code, n);
                os[rng.usize(os.len())].text.clone()
            }
            4 => match code {
                "fr" => gen::annot_fr(rng, lex),
                "en" => gen::annot_en(rng, lex, true),
                _ => gen::linking_sentence(rng, lex, 8),
            },
            5 => format!("{} {}", rng.pick(&lex.number_words), rng.pick(&lex.number_words)), // mostly invalid
            6 => gen::linking_sentence(rng, lex, 8),
            7 if !small => super::c03::Input::Big { class: "compound".into(), size: 40 + rng.usize(400) }.materialize(code),
            _ => gen::hostile_text(rng, lex, if small { 4 } else { 8 }),
        };
        let kinds: &[u8] = match rng.below(6) {
            0 => &[0],
            1 => &[1, 1, 1],
            2 => &[2, 1],
            3 => &[3, 1],
            4 => &[3, 2, 0],
            _ => &[0, 1, 2, 1],
        };
        let ts = [0.0, 10.0, 0.0, 3.0];
        for (j, &k) in kinds.iter().enumerate() {
            v.push(Call { lang: li, kind: k, text: text.clone(), t: ts[(j + v.len()) % 4] });
        }
    }
    v.truncate(n);
    v
}

/// (1) history independence
pub fn history_workload(ctx: &Ctx, rep: &mut Report, n_calls: usize, fresh_every: usize) {
    let ls = LangSet::new();
    let mut rng = Rng::derive(ctx.seed, "C14-history", 0);
    let script = make_script(&mut rng, &ls, n_calls, false);
    // A: long-lived concrete interpreters; B: a second long-lived set, through the facade
    let a: Vec<Box<dyn Api>> = api::all_concrete();
    let b: Vec<Box<dyn Api>> = LANGS.iter().map(|c| api::facade(c)).collect();
    for (i, c) in script.iter().enumerate() {
        if i % 1024 == 0 && ctx.over_budget() {
            rep.notes.push(format!("history workload stopped after {} calls (time budget)", i));
            break;
        }
        crate::core::set_current(LANGS[c.lang], "history workload", &c.text);
        let ra = perform(a[c.lang].as_ref(), c);
        let rb = perform(b[c.lang].as_ref(), c);
        rep.eval(hash_bytes(&[&[c.lang as u8, c.kind], c.text.as_bytes(), &c.t.to_bits().to_le_bytes()]), true);
        rep.count("history_calls");
        if ra != rb {
            rep.violation("history:two-interpreters", jobj! {"kind" => "history", "index" => i, "call" => call_json(c)}, format!("call #{} {}: interpreter A (used for all {} earlier calls) gives {:?}, interpreter B gives {:?}", i, show_call(c), i, ra, rb));
        }
        if i % fresh_every == 0 {
            let f = api::concrete(LANGS[c.lang]);
            let rf = perform(f.as_ref(), c);
            rep.count("history_calls_compared_with_a_fresh_interpreter");
            if ra != rf {
                rep.violation("history:fresh", jobj! {"kind" => "history", "index" => i, "call" => call_json(c)}, format!("call #{} {}: the reused interpreter gives {:?} after {} earlier calls, a freshly built one gives {:?}", i, show_call(c), ra, i, rf));
            }
        }
    }
    // order independence: the same calls in a different order, on other interpreters, in another thread (state that is
    // per thread or per process rather than per interpreter is invisible to the comparisons above: every party shares it)
    let n_perm = script.len().min(if ctx.quick() { 120_000 } else { 1_500_000 });
    let sub: Vec<Call> = script[..n_perm].to_vec();
    let mut order: Vec<usize> = (0..n_perm).collect();
    rng.shuffle(&mut order);
    let sub2 = sub.clone();
    let order2 = order.clone();
    let forward: Vec<String> = {
        let a2: Vec<Box<dyn Api>> = api::all_concrete();
        sub.iter().map(|c| perform(a2[c.lang].as_ref(), c)).collect()
    };
    let handle = std::thread::spawn(move || {
        let a3: Vec<Box<dyn Api>> = LANGS.iter().map(|c| api::facade(c)).collect();
        let mut out: Vec<(usize, String)> = Vec::with_capacity(order2.len());
        for &i in &order2 {
            out.push((i, perform(a3[sub2[i].lang].as_ref(), &sub2[i])));
        }
        out
    });
    match handle.join() {
        Ok(permuted) => {
            for (i, r) in permuted {
                rep.count("history_calls_compared_across_two_call_orders");
                if r != forward[i] {
                    rep.violation(
                        "history:order",
                        jobj! {"kind" => "history", "index" => i, "call" => call_json(&sub[i])},
                        format!("call {} gives {:?} when the script runs in order and {:?} when the same calls run in another order in another thread: the result depends on earlier calls", show_call(&sub[i]), forward[i], r),
                    );
                    break;
                }
            }
        }
        Err(_) => {
            let (loc, msg) = crate::core::take_last_panic().unwrap_or(("?".into(), "?".into()));
            rep.violation("history:panic", jobj! {"kind" => "panic", "during" => "permuted history"}, format!("the library panicked at {} ({}) while the history script ran in another order", loc, msg));
        }
    }
}

static INFLIGHT: AtomicUsize = AtomicUsize::new(0);

/// (2) sharing: threads replay scripts against the same interpreter values; results must equal the sequential reference
pub fn thread_workload(seed: u64, n_threads: usize, calls_per_thread: usize, small: bool, rep: &mut Report) {
    let ls = LangSet::new();
    // the shared values: one facade Language and one concrete interpreter per language
    let shared: Arc<Vec<Box<dyn Api>>> = Arc::new(LANGS.iter().map(|c| api::facade(c)).chain(LANGS.iter().map(|c| api::concrete(c))).collect());
    let mut scripts: Vec<Vec<(Call, usize, String)>> = Vec::new();
    for t in 0..n_threads {
        let mut rng = Rng::derive(seed, "C14-threads", t as u64);
        let mut sc = make_script(&mut rng, &ls, calls_per_thread, small);
        // cold start: the very first overlapping calls on the never-used shared interpreters are compound words of the
        // three languages that carry a splitter automaton
        let cold = ["de", "nl", "it"][t % 3];
        let li = LANGS.iter().position(|c| *c == cold).unwrap();
        sc.insert(0, Call { lang: li, kind: 0, text: spell::cardinal(cold, 21 + (t as u64 % 7) * 11), t: 0.0 });
        sc.insert(1, Call { lang: li, kind: 1, text: format!("{} {}", spell::cardinal(cold, 345), ls.lexicon(cold).fillers[0]), t: 0.0 });
        // sequential reference from interpreters that are never shared
        let refs: Vec<(Call, usize, String)> = sc
            .into_iter()
            .enumerate()
            .map(|(i, c)| {
                let which = if i % 2 == 0 { c.lang } else { 7 + c.lang };
                let r = perform(ls.api(LANGS[c.lang]), &c);
                (c, which, r)
            })
            .collect();
        scripts.push(refs);
    }
    let overlapped = Arc::new(AtomicUsize::new(0));
    let total = Arc::new(AtomicUsize::new(0));
    let barrier = Arc::new(std::sync::Barrier::new(n_threads));
    let mut handles = Vec::new();
    for (t, sc) in scripts.into_iter().enumerate() {
        let shared = shared.clone();
        let overlapped = overlapped.clone();
        let total = total.clone();
        let barrier = barrier.clone();
        handles.push(std::thread::spawn(move || {
            let mut mismatches: Vec<(usize, Call, String, String)> = Vec::new();
            barrier.wait();
            for (i, (c, which, want)) in sc.iter().enumerate() {
                let prev = INFLIGHT.fetch_add(1, Ordering::SeqCst);
                if prev > 0 {
                    overlapped.fetch_add(1, Ordering::Relaxed);
                }
                let got = perform(shared[*which].as_ref(), c);
                INFLIGHT.fetch_sub(1, Ordering::SeqCst);
                total.fetch_add(1, Ordering::Relaxed);
                if &got != want && mismatches.len() < 5 {
                    mismatches.push((i, c.clone(), want.clone(), got));
                }
            }
            (t, mismatches)
        }));
    }
    for h in handles {
        match h.join() {
            Ok((t, mm)) => {
                for (i, c, want, got) in mm {
                    rep.violation(
                        "threads:mismatch",
                        jobj! {"kind" => "threads", "thread" => t, "index" => i, "call" => call_json(&c)},
                        format!("thread {} call #{} {} on a shared interpreter gives {:?}; the sequential reference is {:?}", t, i, show_call(&c), got, want),
                    );
                }
            }
            Err(_) => {
                let (loc, msg) = crate::core::take_last_panic().unwrap_or(("?".into(), "?".into()));
                rep.violation("threads:panic", jobj! {"kind" => "threads-panic"}, format!("a thread sharing the interpreters panicked at {}: {}", loc, msg));
            }
        }
    }
    let tot = total.load(Ordering::Relaxed) as u64;
    rep.add("thread_calls", tot);
    rep.add("thread_calls_started_while_another_was_in_flight", overlapped.load(Ordering::Relaxed) as u64);
    rep.evaluations += tot;
    for i in 0..tot.min(100_000) {
        rep.distinct.insert(hash_bytes(&[b"thr", &seed.to_le_bytes(), &i.to_le_bytes()]));
    }
}

/// Contention phase: few keys, many threads, short calls of mixed kinds on ONE shared interpreter per splitter language
/// (compound words, simple words, non-numbers alternate, so that any per-interpreter scratch or memo is hammered).
pub fn contention_workload(seed: u64, n_threads: usize, iters: usize, rep: &mut Report) {
    for code in ["de", "nl", "it", "fr", "en"] {
        let shared: Arc<Box<dyn Api>> = Arc::new(if seed % 2 == 0 { api::facade(code) } else { api::concrete(code) });
        let private = api::concrete(code);
        let info = spell::info(code);
        let mut texts: Vec<String> = vec![
            spell::cardinal(code, 21),
            spell::cardinal(code, 7),
            spell::cardinal(code, 345),
            "xyz".to_string(),
            spell::cardinal(code, 1_234_567),
            info.conj.to_string(),
            spell::cardinal(code, 80),
            format!("{} {}", spell::cardinal(code, 12), spell::cardinal(code, 12)),
        ];
        for o in spell::ordinals(code, 22).into_iter().take(2) {
            texts.push(o.text);
        }
        let expected: Vec<(String, String)> = texts.iter().map(|t| (format!("{:?}", private.validate(t)), private.replace(t, 0.0))).collect();
        let texts = Arc::new(texts);
        let expected = Arc::new(expected);
        let barrier = Arc::new(std::sync::Barrier::new(n_threads));
        let mut handles = Vec::new();
        for t in 0..n_threads {
            let (shared, texts, expected, barrier) = (shared.clone(), texts.clone(), expected.clone(), barrier.clone());
            handles.push(std::thread::spawn(move || {
                let mut bad: Option<(usize, String, String)> = None;
                barrier.wait();
                for i in 0..iters {
                    let k = (i * 7 + t * 3) % texts.len();
                    if i % 2 == 0 {
                        let got = format!("{:?}", shared.validate(&texts[k]));
                        if got != expected[k].0 && bad.is_none() {
                            bad = Some((k, expected[k].0.clone(), got));
                        }
                    } else {
                        let got = shared.replace(&texts[k], 0.0);
                        if got != expected[k].1 && bad.is_none() {
                            bad = Some((k, expected[k].1.clone(), got));
                        }
                    }
                }
                bad
            }));
        }
        for (t, h) in handles.into_iter().enumerate() {
            match h.join() {
                Ok(Some((k, want, got))) => rep.violation(
                    "threads:contention",
                    jobj! {"kind" => "threads", "thread" => t, "call" => jobj!{"lang" => code, "call" => 0, "text" => texts[k].as_str(), "threshold" => "0"}},
                    format!("contention phase [{}]: thread {} calling on {:?} through a shared interpreter got {:?}; an unshared interpreter gives {:?}", code, t, texts[k], got, want),
                ),
                Ok(None) => {}
                Err(_) => {
                    let (loc, msg) = crate::core::take_last_panic().unwrap_or(("?".into(), "?".into()));
                    rep.violation("threads:panic", jobj! {"kind" => "threads-panic"}, format!("contention phase [{}]: a thread sharing the interpreter panicked at {}: {}", code, loc, msg));
                }
            }
        }
        let tot = (n_threads * iters) as u64;
        rep.add("contention_calls", tot);
        rep.evaluations += tot;
        rep.distinct.insert(hash_bytes(&[b"contention", code.as_bytes(), &seed.to_le_bytes()]));
    }
}

/// Light variant for Miri: three shared interpreters, scripts from the spellers only (no lexicon).
pub fn thread_workload_light(seed: u64, n_threads: usize, calls_per_thread: usize, rep: &mut Report) {
    let codes = ["de", "en", ["it", "nl", "fr"][(seed % 3) as usize]];
    let shared: Arc<Vec<Box<dyn Api>>> = Arc::new(vec![api::facade(codes[0]), api::concrete(codes[1]), api::concrete(codes[2])]);
    let reference: Vec<Box<dyn Api>> = vec![api::concrete(codes[0]), api::facade(codes[1]), api::facade(codes[2])];
    let mut scripts: Vec<Vec<(Call, usize, String)>> = Vec::new();
    for t in 0..n_threads {
        let mut rng = Rng::derive(seed, "C14-miri", t as u64);
        let mut sc = Vec::new();
        for i in 0..calls_per_thread {
            let which = rng.usize(3);
            let code = codes[which];
            let n = gen::random_number(&mut rng, 4);
            let text = match i % 4 {
                0 => spell::cardinal(code, n),
                1 => format!("{} xyz {}", spell::cardinal(code, n % 10), spell::cardinal(code, n)),
                2 => format!("{} {}", spell::cardinal(code, n % 100), spell::cardinal(code, n % 100)),
                _ => {
                    let os = spell::ordinals(code, 1 + n % 99);
                    os[rng.usize(os.len())].text.clone()
                }
            };
            let c = Call { lang: LANGS.iter().position(|x| *x == code).unwrap(), kind: (i % 3) as u8, text, t: if i % 2 == 0 { 0.0 } else { 10.0 } };
            let r = perform(reference[which].as_ref(), &c);
            sc.push((c, which, r));
        }
        scripts.push(sc);
    }
    let mut handles = Vec::new();
    let total = Arc::new(AtomicUsize::new(0));
    for (t, sc) in scripts.into_iter().enumerate() {
        let shared = shared.clone();
        let total = total.clone();
        handles.push(std::thread::spawn(move || {
            let mut mm = Vec::new();
            for (i, (c, which, want)) in sc.iter().enumerate() {
                let got = perform(shared[*which].as_ref(), c);
                total.fetch_add(1, Ordering::Relaxed);
                if &got != want {
                    mm.push((i, c.clone(), want.clone(), got));
                }
            }
            (t, mm)
        }));
    }
    for h in handles {
        if let Ok((t, mm)) = h.join() {
            for (i, c, want, got) in mm {
                rep.violation("threads:mismatch", jobj! {"kind" => "threads", "thread" => t, "index" => i, "call" => call_json(&c)}, format!("thread {} call #{} {} on a shared interpreter gives {:?}; the sequential reference is {:?}", t, i, show_call(&c), got, want));
            }
        }
    }
    let tot = total.load(Ordering::Relaxed) as u64;
    rep.add("thread_calls", tot);
    rep.evaluations += tot;
    for i in 0..tot {
        rep.distinct.insert(hash_bytes(&[b"thr-light", &seed.to_le_bytes(), &i.to_le_bytes()]));
    }
}

/// (4) the sweep run inside the silent worker
pub fn silence_sweep(rep: &mut Report) {
    let ls = LangSet::new();
    for code in LANGS {
        let api = ls.api(code);
        let lex = ls.lexicon(code);
        let mut words: Vec<String> = lex.number_words.clone();
        words.extend(lex.ordinal_words.iter().cloned());
        words.extend(lex.linking.iter().cloned());
        words.extend(lex.fillers.iter().map(|s| s.to_lowercase()));
        words.push(lex.conj.to_string());
        words.push(lex.sep.to_string());
        for w in &words {
            for state in 0..7 {
                let mut b = DigitString::new();
                match state {
                    1 => {
                        let _ = b.put(b"2");
                    }
                    2 => {
                        let _ = b.put(b"20");
                    }
                    3 => {
                        let _ = b.put(b"100");
                    }
                    4 => {
                        let _ = b.put(b"1000");
                    }
                    5 => {
                        let _ = b.put(b"2000000");
                    }
                    6 => {
                        let _ = b.put(b"5");
                        b.freeze();
                    }
                    _ => {}
                }
                let _ = api.apply(w, &mut b);
                let mut d = DigitString::new();
                let _ = api.apply_decimal(w, &mut d);
                let _ = api.is_linking(w);
                let _ = api.marker_of(w);
                rep.evaluations += 1;
            }
            rep.seen_str("silence_distinct_words_applied", &format!("{}:{}", code, w));
        }
        // compounds of two vocabulary words (hyphenated, and glued for the splitter languages) in digit states that
        // include occupied thousands / millions: the rare refusal paths of the compound branch
        let base: Vec<&String> = lex.number_words.iter().filter(|w| !w.contains('-') && w.chars().count() <= 12).take(70).collect();
        let states: [&[u8]; 8] = [b"", b"2", b"21", b"100", b"14000", b"200000", b"2000000", b"5"];
        for w1 in &base {
            for w2 in &base {
                let forms: [String; 2] = [format!("{}-{}", w1, w2), format!("{}{}", w1, w2)];
                for (fi, w) in forms.iter().enumerate() {
                    if fi == 1 && !matches!(code, "de" | "nl" | "it") {
                        continue;
                    }
                    for (si, st) in states.iter().enumerate() {
                        let mut b = DigitString::new();
                        if !st.is_empty() {
                            let _ = b.put(st);
                        }
                        if si == 7 {
                            b.freeze();
                        }
                        let _ = api.apply(w, &mut b);
                        rep.evaluations += 1;
                    }
                }
            }
        }
        rep.add("silence_compounds_applied", (base.len() * base.len()) as u64);
        let mut ns: Vec<u64> = (0..200).collect();
        ns.extend((2..10).map(|h| h * 100));
        ns.extend([1000, 1100, 1900, 2000, 21000, 100000, 1000000, 2000000, 1000000000]);
        for n in ns {
            for v in spell::cardinal_variants(code, n) {
                let _ = api.validate(&v.text);
                let _ = api.replace(&format!("{} {}", v.text, lex.fillers[0]), 10.0);
                rep.evaluations += 1;
            }
            for o in spell::ordinals(code, n.max(1)) {
                let _ = api.replace(&o.text, 0.0);
                rep.evaluations += 1;
            }
            if let Some(f) = spell::fraction(code, "05") {
                let _ = api.replace(&format!("{} {} {}", spell::cardinal(code, n), spell::info(code).sep, f), 0.0);
            }
        }
    }
}

/// second part of the silent worker: rare paths (hostile texts, hinted token streams, degenerate and large inputs)
pub fn silence_hostile(rep: &mut Report, n: usize) {
    let ls = LangSet::new();
    let mut rng = Rng::derive(0xC14, "C14-silence", 0);
    for i in 0..n {
        let code = LANGS[i % 7];
        let lex = ls.lexicon(code);
        let api = ls.api(code);
        let input = super::c03::gen_input(&mut rng, lex, true, 2000);
        let s = input.materialize(code);
        let t = *rng.pick(&super::c03::THRESHOLDS);
        let _ = std::panic::catch_unwind(std::panic::AssertUnwindSafe(|| super::c03::exercise(api, &s, t, rng.next_u64())));
        if i % 5 == 0 {
            let toks = crate::streams::gen_stream(&mut rng, lex, &crate::streams::StreamOpts::hinted(12));
            let _ = std::panic::catch_unwind(std::panic::AssertUnwindSafe(|| {
                let _ = api.find(&toks, t);
                let _ = api.replace_stream(toks.clone(), t);
            }));
        }
        rep.evaluations += 1;
    }
    rep.add("silence_hostile_inputs", n as u64);
}

/// child entries:
///   worker c14-threads <seed> <n_threads> <calls_per_thread> <small 0|1> <result_file>
///   worker c14-silence <result_file>
pub fn worker_threads(args: &[String]) -> i32 {
    let seed: u64 = args.first().and_then(|s| s.parse().ok()).unwrap_or(1);
    let nt: usize = args.get(1).and_then(|s| s.parse().ok()).unwrap_or(4);
    let cpt: usize = args.get(2).and_then(|s| s.parse().ok()).unwrap_or(100);
    let small = args.get(3).map(|s| s == "1").unwrap_or(false);
    let out = args.get(4).cloned().unwrap_or_default();
    let mut rep = Report::new();
    thread_workload(seed, nt, cpt, small, &mut rep);
    contention_workload(seed, nt, cpt.min(4000), &mut rep);
    legs::write_child_report(&out, &rep)
}

pub fn worker_threads_light(args: &[String]) -> i32 {
    let seed: u64 = args.first().and_then(|s| s.parse().ok()).unwrap_or(1);
    let nt: usize = args.get(1).and_then(|s| s.parse().ok()).unwrap_or(3);
    let cpt: usize = args.get(2).and_then(|s| s.parse().ok()).unwrap_or(4);
    let out = args.get(3).cloned().unwrap_or_default();
    let mut rep = Report::new();
    thread_workload_light(seed, nt, cpt, &mut rep);
    legs::write_child_report(&out, &rep)
}

pub fn worker_silence(args: &[String]) -> i32 {
    let out = args.first().cloned().unwrap_or_default();
    let mut rep = Report::new();
    silence_sweep(&mut rep);
    let n: usize = args.get(1).and_then(|s| s.parse().ok()).unwrap_or(40_000);
    silence_hostile(&mut rep, n);
    rep.distinct.insert(1);
    rep.distinct.insert(2);
    legs::write_child_report(&out, &rep)
}

fn sanitizer_leg(ctx: &Ctx, rep: &mut Report, leg: &str, env_var: &str, marker: &str, n_threads: usize, calls: usize, env: &[(&str, &str)]) {
    if let Ok(e) = std::env::var(format!("{}_ERROR", env_var)) {
        rep.inconclusive.push(format!("leg={} reason={}", leg, e));
        return;
    }
    let bin = match std::env::var(env_var) {
        Ok(b) if !b.is_empty() => b,
        _ => {
            rep.notes.push(format!("leg {} not requested for this run", leg));
            return;
        }
    };
    let result = format!("{}/harness/target/c14-{}-{}.json", ctx.verif_dir, leg, std::process::id());
    let _ = std::fs::remove_file(&result);
    let mut c = Command::new(&bin);
    c.args(["worker", "c14-threads", &ctx.seed.to_string(), &n_threads.to_string(), &calls.to_string(), "0", &result]);
    for (k, v) in env {
        c.env(k, v);
    }
    let r = run_child(&mut c, 900);
    let err = String::from_utf8_lossy(&r.stderr).to_string();
    if !r.started {
        rep.inconclusive.push(format!("leg={} reason=cannot start {}", leg, bin));
        return;
    }
    if r.timed_out {
        rep.inconclusive.push(format!("leg={} reason=outer watchdog fired", leg));
        return;
    }
    let reports = err.matches(marker).count();
    rep.add(&format!("leg_{}_sanitizer_reports", leg), reports as u64);
    if reports > 0 {
        let first: String = err.lines().skip_while(|l| !l.contains(marker)).take(12).collect::<Vec<_>>().join(" | ");
        // deduplicate by the first in-repo frame
        let frame = err.lines().find(|l| l.contains("/repo/src") || l.contains("text2num")).unwrap_or("").trim().to_string();
        rep.violation(
            &format!("{}:{}", leg, frame.chars().take(100).collect::<String>()),
            jobj! {"kind" => "sanitizer", "leg" => leg, "seed" => ctx.seed, "threads" => n_threads, "calls" => calls},
            format!("[leg {}] {} report(s) while {} threads shared the interpreters: {}", leg, reports, n_threads, first.chars().take(900).collect::<String>()),
        );
    }
    match std::fs::read_to_string(&result).ok().and_then(|s| json::parse(&s).ok()) {
        Some(j) => {
            legs::merge_child_json(rep, leg, &j);
            rep.add(&format!("leg_{}_wall_ms", leg), (r.wall_s * 1000.0) as u64);
        }
        None => {
            if reports == 0 {
                rep.inconclusive.push(format!("leg={} reason=no report (exit {:?}, signal {:?}): {}", leg, r.exit_code, r.signal, err.lines().rev().take(3).collect::<Vec<_>>().join(" | ").chars().take(300).collect::<String>()));
            }
        }
    }
    let _ = std::fs::remove_file(&result);
}

fn miri_leg(ctx: &Ctx, rep: &mut Report, seeds: usize) {
    let dir = match std::env::var("T2N_LEG_MIRI_DIR") {
        Ok(d) if !d.is_empty() => d,
        _ => {
            rep.notes.push("leg miri not requested for this run".into());
            return;
        }
    };
    // 3 threads x a few calls, N schedules explored by Miri's seeded scheduler, sharded over processes
    let per_proc = 2usize;
    let n_procs = (seeds + per_proc - 1) / per_proc;
    let handles: Vec<_> = (0..n_procs)
        .map(|p| {
            let dir = dir.clone();
            let verif_dir = ctx.verif_dir.clone();
            let seed = ctx.seed + p as u64;
            std::thread::spawn(move || {
                let result = format!("{}/harness/target/c14-miri-{}-{}.json", verif_dir, std::process::id(), p);
                let _ = std::fs::remove_file(&result);
                let lo = p * per_proc;
                let hi = lo + per_proc;
                let mut c = Command::new("cargo");
                c.current_dir(&dir);
                c.args(["+nightly", "miri", "run", "--offline", "--quiet", "--bin", "t2n-verif", "--", "worker", "c14-threads-light", &seed.to_string(), "3", "5", &result]);
                c.env("MIRIFLAGS", format!("-Zmiri-disable-isolation -Zmiri-many-seeds={}..{}", lo, hi)).env("VERIF_DIR", &verif_dir).env("CARGO_NET_OFFLINE", "true");
                c.env("CARGO_TARGET_DIR", format!("{}/target-miri", dir));
                let r = run_child(&mut c, 1500);
                (p, result, r)
            })
        })
        .collect();
    let mut schedules_ok = 0u64;
    for h in handles {
        let (p, result, r) = match h.join() {
            Ok(x) => x,
            Err(_) => continue,
        };
        let err = String::from_utf8_lossy(&r.stderr).to_string();
        if !r.started {
            rep.inconclusive.push(format!("leg=miri{} reason=cannot start cargo miri", p));
            continue;
        }
        if r.timed_out {
            rep.inconclusive.push(format!("leg=miri{} reason=outer watchdog fired", p));
            continue;
        }
        if err.contains("Undefined Behavior") || err.contains("Data race") || err.contains("data race") {
            let first: String = err.lines().filter(|l| l.contains("error") || l.contains("race") || l.contains("Undefined")).take(4).collect::<Vec<_>>().join(" | ");
            rep.violation(
                &format!("miri:{}", first.chars().take(80).collect::<String>()),
                jobj! {"kind" => "sanitizer", "leg" => "miri", "seed" => ctx.seed, "process" => p},
                format!("[leg miri] while 3 threads shared the interpreters: {}", first.chars().take(900).collect::<String>()),
            );
            continue;
        }
        match std::fs::read_to_string(&result).ok().and_then(|s| json::parse(&s).ok()) {
            Some(j) if r.exit_code == Some(0) => {
                legs::merge_child_json(rep, "miri", &j);
                schedules_ok += per_proc as u64;
            }
            _ => rep.inconclusive.push(format!("leg=miri{} reason=no clean report (exit {:?}): {}", p, r.exit_code, err.lines().rev().take(3).collect::<Vec<_>>().join(" | ").chars().take(300).collect::<String>())),
        }
        let _ = std::fs::remove_file(&result);
    }
    rep.add("leg_miri_schedules_completed", schedules_ok);
}

/// The fixed probe set of the first-call leg: built from the spellers only, so that the probe process has made no
/// library call before its chosen "first call".
fn first_call_probes() -> Vec<(usize, u8, String, f64)> {
    let mut v = Vec::new();
    for (li, code) in LANGS.iter().enumerate() {
        for n in [0u64, 7, 21, 80, 101, 1999, 21_000, 1_000_000] {
            v.push((li, 0u8, spell::cardinal(code, n), 0.0));
        }
        v.push((li, 1, format!("{} xyz {} {}", spell::cardinal(code, 3), spell::cardinal(code, 5), spell::cardinal(code, 25)), 10.0));
        v.push((li, 1, format!("{} {} {}", spell::cardinal(code, 2), spell::info(code).sep, spell::fraction(code, "05").unwrap_or_default()), 0.0));
        for o in spell::ordinals(code, 22).into_iter().take(2) {
            v.push((li, 1, o.text, 0.0));
        }
        v.push((li, 2, format!("{} , {}", spell::cardinal(code, 1), spell::cardinal(code, 2)), 10.0));
    }
    v
}

/// child entry: `worker c14-first <k> <result_file>`: the k-th variant of "what this process did first", then the probes
pub fn worker_first(args: &[String]) -> i32 {
    let k: usize = args.first().and_then(|s| s.parse().ok()).unwrap_or(0);
    let out = args.get(1).cloned().unwrap_or_default();
    // the first library calls of this process
    let first_lang = LANGS[k % 7];
    let a = if k % 2 == 0 { api::concrete(first_lang) } else { api::facade(first_lang) };
    let first_text = match k / 7 % 4 {
        0 => spell::cardinal(first_lang, 21),
        1 => "xyz qqq".to_string(),
        2 => super::c03::Input::Big { class: "compound".into(), size: 200 }.materialize(first_lang),
        _ => spell::ordinals(first_lang, 3).into_iter().next().map(|o| o.text).unwrap_or_default(),
    };
    let _ = a.validate(&first_text);
    let _ = a.replace(&first_text, if k % 3 == 0 { 0.0 } else { 10.0 });
    // the probes, on fresh interpreters
    let apis: Vec<Box<dyn Api>> = if k % 2 == 0 { LANGS.iter().map(|c| api::facade(c)).collect() } else { api::all_concrete() };
    let mut lines: Vec<J> = Vec::new();
    for (li, kind, text, t) in first_call_probes() {
        let c = Call { lang: li, kind, text, t };
        lines.push(J::Str(perform(apis[li].as_ref(), &c)));
    }
    let j = jobj! {"k" => k, "first" => format!("{} {:?}", first_lang, first_text.chars().take(40).collect::<String>()), "results" => J::Arr(lines)};
    match std::fs::write(&out, j.to_string()) {
        Ok(()) => 0,
        Err(_) => 3,
    }
}

/// first-call leg: K fresh processes whose first library call differs, then the same probes; all must agree
fn first_call_leg(ctx: &Ctx, rep: &mut Report, n_procs: usize) {
    let bin = std::env::current_exe().map(|p| p.to_string_lossy().into_owned()).unwrap_or_default();
    let probes = first_call_probes();
    let handles: Vec<_> = (0..n_procs)
        .map(|k| {
            let bin = bin.clone();
            let result = format!("{}/harness/target/c14-first-{}-{}.json", ctx.verif_dir, std::process::id(), k);
            std::thread::spawn(move || {
                let _ = std::fs::remove_file(&result);
                let mut c = Command::new(&bin);
                c.args(["worker", "c14-first", &k.to_string(), &result]);
                let r = run_child(&mut c, 120);
                let j = std::fs::read_to_string(&result).ok().and_then(|s| json::parse(&s).ok());
                let _ = std::fs::remove_file(&result);
                (k, r, j)
            })
        })
        .collect();
    let mut reference: Option<(usize, String, Vec<String>)> = None;
    for h in handles {
        let (k, r, j) = match h.join() {
            Ok(x) => x,
            Err(_) => continue,
        };
        let j = match j {
            Some(j) => j,
            None => {
                rep.inconclusive.push(format!("leg=first-call reason=process {} produced no report (exit {:?})", k, r.exit_code));
                continue;
            }
        };
        let results: Vec<String> = j.get("results").and_then(|a| a.as_arr()).map(|a| a.iter().map(|x| x.as_str().unwrap_or("").to_string()).collect()).unwrap_or_default();
        let first = j.str_of("first");
        rep.eval(hash_bytes(&[b"first-call", &[k as u8]]), true);
        rep.add("first_call_probe_results_compared", results.len() as u64);
        match &reference {
            None => reference = Some((k, first, results)),
            Some((k0, first0, r0)) => {
                if let Some(i) = (0..results.len().min(r0.len())).find(|&i| results[i] != r0[i]) {
                    let (li, kind, text, t) = &probes[i];
                    let c = Call { lang: *li, kind: *kind, text: text.clone(), t: *t };
                    rep.violation(
                        "history:first-call",
                        jobj! {"kind" => "first-call", "k" => k, "k0" => *k0, "call" => call_json(&c)},
                        format!("{} gives {:?} in a process whose first call was [{}] and {:?} in a process whose first call was [{}]: the result depends on what the process did first", show_call(&c), results[i], first, r0[i], first0),
                    );
                } else if results.len() != r0.len() {
                    rep.inconclusive.push(format!("leg=first-call reason=processes {} and {} returned {} vs {} probe results", k, k0, results.len(), r0.len()));
                }
            }
        }
    }
}

fn build_probe(ctx: &Ctx, rep: &mut Report) {
    let dir = match std::env::var("T2N_PROBE_DIR") {
        Ok(d) if !d.is_empty() => d,
        _ => format!("{}/probes/sendsync", ctx.verif_dir),
    };
    let _ = std::fs::copy("/repo/Cargo.lock", format!("{}/Cargo.lock", dir));
    let mut c = Command::new("cargo");
    c.current_dir(&dir).args(["run", "--release", "--offline", "--quiet"]).env("CARGO_TARGET_DIR", format!("{}/harness/target", ctx.verif_dir)).env("CARGO_NET_OFFLINE", "true");
    let r = run_child(&mut c, 600);
    let out = String::from_utf8_lossy(&r.stdout).to_string();
    let err = String::from_utf8_lossy(&r.stderr).to_string();
    rep.eval(hash_bytes(&[b"sendsync-probe"]), true);
    if r.started && r.exit_code == Some(0) && out.contains("sendsync-ok") {
        rep.count("sendsync_probe_compiled_and_ran");
    } else if err.contains("E0277") && (err.contains("Send") || err.contains("Sync")) {
        let first: String = err.lines().filter(|l| l.contains("E0277") || l.contains("cannot be")).take(3).collect::<Vec<_>>().join(" | ");
        rep.violation("sendsync", jobj! {"kind" => "sendsync"}, format!("the Send + Sync build probe does not compile against the current tree: {}", first.chars().take(500).collect::<String>()));
    } else {
        rep.inconclusive.push(format!("leg=sendsync-probe reason=probe could not be built or run ({})", err.lines().rev().take(2).collect::<Vec<_>>().join(" | ").chars().take(300).collect::<String>()));
    }
}

fn silence_leg(ctx: &Ctx, rep: &mut Report) {
    let bin = std::env::current_exe().map(|p| p.to_string_lossy().into_owned()).unwrap_or_default();
    let result = format!("{}/harness/target/c14-silence-{}.json", ctx.verif_dir, std::process::id());
    let _ = std::fs::remove_file(&result);
    let mut c = Command::new(&bin);
    c.args(["worker", "c14-silence", &result, &ctx.n(60_000, 600_000).to_string()]);
    let r = run_child(&mut c, 600);
    rep.eval(hash_bytes(&[b"silence"]), true);
    if !r.started || r.timed_out {
        rep.inconclusive.push("leg=silence reason=worker could not be started or was stopped by the watchdog".into());
        return;
    }
    match std::fs::read_to_string(&result).ok().and_then(|s| json::parse(&s).ok()) {
        Some(j) => legs::merge_child_json(rep, "silence", &j),
        None => {
            rep.inconclusive.push(format!("leg=silence reason=no report (exit {:?})", r.exit_code));
            return;
        }
    }
    let _ = std::fs::remove_file(&result);
    rep.add("silence_stdout_bytes", r.stdout.len() as u64);
    rep.add("silence_stderr_bytes", r.stderr.len() as u64);
    if !r.stdout.is_empty() || !r.stderr.is_empty() {
        let so = String::from_utf8_lossy(&r.stdout);
        let se = String::from_utf8_lossy(&r.stderr);
        rep.violation(
            "silence",
            jobj! {"kind" => "silence"},
            format!(
                "library calls wrote to the standard streams: {} bytes on stdout, {} bytes on stderr; first lines: {:?} / {:?}",
                r.stdout.len(),
                r.stderr.len(),
                so.lines().take(3).collect::<Vec<_>>(),
                se.lines().take(3).collect::<Vec<_>>()
            ),
        );
    }
}

/// run a part of the workload; a library panic escaping from it is a violation with the case in progress as witness
fn guarded(rep: &mut Report, what: &str, f: impl FnOnce(&mut Report)) {
    let res = std::panic::catch_unwind(std::panic::AssertUnwindSafe(|| {
        let mut r = Report::new();
        f(&mut r);
        r
    }));
    match res {
        Ok(r) => rep.merge(r),
        Err(_) => {
            let (loc, msg) = crate::core::take_last_panic().unwrap_or(("?".into(), "?".into()));
            if loc.contains("harness/src") {
                rep.harness_errors.push(format!("harness panic at {}: {}", loc, msg));
            } else {
                rep.violation(&format!("panic:{}", loc), jobj! {"kind" => "panic", "during" => what, "panic_location" => loc.as_str(), "panic_message" => msg.as_str()}, format!("the library panicked at {} ({}) during the {} workload", loc, msg, what));
            }
        }
    }
}

pub fn run(ctx: &Ctx) -> Outcome {
    let mut rep = Report::new();
    let q = ctx.quick();
    guarded(&mut rep, "history", |r| history_workload(ctx, r, ctx.n(400_000, 6_000_000) as usize, if q { 20 } else { 50 }));
    let nt = ctx.threads.max(4);
    // several rounds: every round starts from never-used shared interpreters (cold-start races)
    for round in 0..(if q { 8 } else { 24 }) {
        guarded(&mut rep, "threads", |r| thread_workload(ctx.seed.wrapping_add(round), nt, ctx.n(1_500, 15_000) as usize, false, r));
    }
    for round in 0..(if q { 4 } else { 16 }) {
        guarded(&mut rep, "contention", |r| contention_workload(ctx.seed.wrapping_add(round), nt, ctx.n(12_000, 60_000) as usize, r));
    }
    first_call_leg(ctx, &mut rep, if q { 14 } else { 56 });
    build_probe(ctx, &mut rep);
    silence_leg(ctx, &mut rep);
    // Miri: data races and UB on the shared interpreters are visible without volume (2 seeded schedules in the quick
    // tier, 8 in the thorough tier)
    if q {
        miri_leg(ctx, &mut rep, 2);
    }
    if !q {
        sanitizer_leg(ctx, &mut rep, "tsan", "T2N_LEG_TSAN", "ThreadSanitizer", 16, 3000, &[("TSAN_OPTIONS", "halt_on_error=0 report_signal_unsafe=0")]);
        sanitizer_leg(ctx, &mut rep, "asan", "T2N_LEG_ASAN", "AddressSanitizer", 16, 6000, &[("ASAN_OPTIONS", "halt_on_error=1:abort_on_error=0:detect_leaks=0")]);
        miri_leg(ctx, &mut rep, 8);
    }
    rep.sample(jobj! {"thread_script_head" => {
        let ls = LangSet::new();
        let mut rng = Rng::derive(ctx.seed, "C14-threads", 0);
        J::Arr(make_script(&mut rng, &ls, 6, true).iter().map(call_json).collect())
    }});
    let rule = "cases = API calls (text2digits / replace_numbers_in_text / find_numbers at thresholds 0,3,10) from scripts aimed at carried state (failing validations next to valid ones, the same text at different thresholds, annotator-state texts, long compounds, alternating languages); (1) one long-lived interpreter set vs a second one for every call and vs a freshly built interpreter for every 20th/50th call; (2) N threads replay pre-computed scripts on the same shared facade and concrete interpreter values, every result compared with the sequential reference, overlap measured by an in-flight counter; thorough: the same thread workload under ThreadSanitizer (-Zbuild-std), AddressSanitizer and Miri (3 threads, seeded schedules); (2b) fresh processes whose first library call differs (language, word kind, access path) run the same probe calls afterwards and must all agree (process-wide lazily initialised state); (3) Send+Sync build probe; (4) a worker process with piped stdout/stderr applies every lexicon word in 7 digit states, converts the C01/C04/C05 corpora and runs the C03 hostile mix (degenerate, multi-byte, large inputs, hinted streams) through every entry point: zero bytes expected; non-trivial = every compared call";
    finish(
        ctx,
        rep,
        rule,
        &[
            "shared values are wrapped in a harness-local force-Sync wrapper so that the thread workload still builds if an interpreter gains interior mutability; Send + Sync itself is decided by the build probe",
            "a sanitizer leg that cannot be built or started is inconclusive",
        ],
        vec![],
    )
}

pub fn replay(case: &J) -> Vec<String> {
    match case.str_of("kind").as_str() {
        "history" | "threads" => {
            // re-execute the single call on a long-lived and a fresh interpreter
            let c = case.get("call").cloned().unwrap_or(J::obj());
            let code = c.str_of("lang");
            let li = LANGS.iter().position(|x| *x == code).unwrap_or(0);
            let t = match c.str_of("threshold").as_str() {
                "NaN" => f64::NAN,
                "inf" => f64::INFINITY,
                o => o.parse().unwrap_or(0.0),
            };
            let call = Call { lang: li, kind: c.get("call").and_then(|x| x.as_i64()).unwrap_or(1) as u8, text: c.str_of("text"), t };
            let a = api::concrete(&code);
            let first = perform(a.as_ref(), &call);
            let second = perform(a.as_ref(), &call);
            let fresh = perform(api::concrete(&code).as_ref(), &call);
            if first != second || first != fresh {
                vec![format!("the same call gives {:?}, then {:?}; a fresh interpreter gives {:?}", first, second, fresh)]
            } else {
                vec![]
            }
        }
        _ => vec!["leg-level record (sanitizer / probe / silence): re-run ./check C14 with the recorded seed".into()],
    }
}
