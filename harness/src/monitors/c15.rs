//! C15 Token-stream contract: lazy == batch, bounded look-ahead, hints honoured.

use crate::api::{IdTok, Occ, LANGS};
use crate::core::{finish, run_sharded, Ctx, Outcome};
use crate::jobj;
use crate::json::J;
use crate::rng::Rng;
use crate::streams::{self, gen_stream, is_skipped, StreamOpts};

use super::LangSet;

pub const THRESHOLDS: [f64; 4] = [0.0, 10.0, 3.0, f64::INFINITY];

/// the stream in which every separation hint is replaced by a spoken comma; also returns old index -> new index
fn comma_equivalent(toks: &[IdTok]) -> (Vec<IdTok>, Vec<usize>) {
    let mut out = Vec::with_capacity(toks.len() + 4);
    let mut map = Vec::with_capacity(toks.len() + 1);
    for t in toks {
        if t.sep && !is_skipped(&t.text) {
            out.push(IdTok::new(1_000_000 + t.id, ","));
        }
        map.push(out.len());
        let mut c = t.clone();
        if !is_skipped(&t.text) {
            c.sep = false;
        }
        out.push(c);
    }
    map.push(out.len());
    (out, map)
}

pub struct Verdict {
    pub n_f0: usize,
    pub hints: usize,
    pub max_lookahead: usize,
    pub failure: Option<String>,
}

pub fn check_stream(ls: &LangSet, code: &str, toks: &[IdTok]) -> Verdict {
    let api = ls.api(code);
    crate::api::nt_log_start();
    let f0 = api.find(toks, 0.0);
    let mut asked = crate::api::nt_log_take();
    crate::api::nt_log_start();
    let _ = api.find_iter_steps(toks, 0.0, 1);
    asked.extend(crate::api::nt_log_take());
    let mut v = Verdict { n_f0: f0.len(), hints: toks.iter().filter(|t| t.sep || t.nan).count(), max_lookahead: 0, failure: None };
    // 0. whenever the scanner asks a token whether it is unrelated to "the previous one", the token it presents must be the
    // predecessor in the stream (the nearest earlier token that is not whitespace or a lone hyphen): hints computed from
    // the pair (pauses between time-stamped words) are only right if the pair is right
    for (id, prev_id) in &asked {
        if let Some(i) = toks.iter().position(|t| t.id == *id) {
            let expected = toks[..i].iter().rev().find(|t| !is_skipped(&t.text)).map(|t| t.id);
            if expected != Some(*prev_id) {
                let shown = |x: Option<u64>| x.and_then(|x| toks.iter().find(|t| t.id == x)).map(|t| format!("{:?}", t.text)).unwrap_or_else(|| "nothing".into());
                v.failure = Some(format!("predecessor: token #{} {:?} was asked whether it is unrelated to {} but its predecessor is {}", i, toks[i].text, shown(Some(*prev_id)), shown(expected)));
                return v;
            }
        }
    }
    for &t in THRESHOLDS.iter() {
        let batch = api.find(toks, t);
        // 1. lazy == batch, then None again
        let (before_first, steps) = api.find_iter_steps(toks, t, 2);
        if before_first != 0 {
            v.failure = Some(format!("laziness: {} tokens were pulled before the first request", before_first));
            return v;
        }
        let yielded: Vec<Occ> = steps.iter().filter_map(|s| s.occ.clone()).collect();
        if yielded != batch {
            v.failure = Some(format!("iterator/batch: at threshold {} the iterator yields {} but the batch search yields {}", t, crate::api::show_occs(&yielded), crate::api::show_occs(&batch)));
            return v;
        }
        // after the first None every further call must be None
        if let Some(first_none) = steps.iter().position(|s| s.occ.is_none()) {
            if steps[first_none..].iter().any(|s| s.occ.is_some()) {
                v.failure = Some(format!("iterator: yields an occurrence after having returned None (threshold {})", t));
                return v;
            }
        } else {
            v.failure = Some(format!("iterator: did not end after {} steps (threshold {})", steps.len(), t));
            return v;
        }
        // 2. bounded look-ahead, in terms of the numbers recognised at threshold 0
        for s in &steps {
            if let Some(o) = &s.occ {
                if let Some(j) = f0.iter().position(|x| x == o) {
                    let bound = if j + 2 < f0.len() { f0[j + 2].end } else { toks.len() };
                    if s.pulled_after > bound {
                        v.failure = Some(format!(
                            "look-ahead: after returning {} (number #{} of {}) the iterator had pulled {} tokens; the second number after it ends at token {}",
                            o.show(),
                            j,
                            f0.len(),
                            s.pulled_after,
                            bound
                        ));
                        return v;
                    }
                    let la = s.pulled_after.saturating_sub(o.end);
                    if la > v.max_lookahead {
                        v.max_lookahead = la;
                    }
                }
            }
        }
        // 3. hints
        for o in &batch {
            for i in o.start..o.end.min(toks.len()) {
                if toks[i].nan {
                    v.failure = Some(format!("nan hint: token #{} {:?} declares itself not a number part but lies inside {}", i, toks[i].text, o.show()));
                    return v;
                }
                if toks[i].sep && !is_skipped(&toks[i].text) && i > o.start {
                    // its predecessor (nearest earlier non-skipped token) is inside the same span if one exists at >= start
                    if toks[o.start..i].iter().any(|p| !is_skipped(&p.text)) {
                        v.failure = Some(format!("separation hint: token #{} {:?} declares itself unrelated to its predecessor but both lie inside {}", i, toks[i].text, o.show()));
                        return v;
                    }
                }
            }
        }
        // 4. separation hint == spoken comma
        if toks.iter().any(|x| x.sep && !is_skipped(&x.text)) {
            let (eq, map) = comma_equivalent(toks);
            let other = api.find(&eq, t);
            let mapped: Vec<Occ> = batch.iter().map(|o| Occ { start: map[o.start], end: map[o.end - 1] + 1, ..o.clone() }).collect();
            if mapped != other {
                v.failure = Some(format!(
                    "hint/comma equivalence: at threshold {} the hinted stream gives {} (re-indexed {}) but the stream with spoken commas gives {}",
                    t,
                    crate::api::show_occs(&batch),
                    crate::api::show_occs(&mapped),
                    crate::api::show_occs(&other)
                ));
                return v;
            }
        }
    }
    v
}

pub fn run(ctx: &Ctx) -> Outcome {
    let n_streams = ctx.n(500_000, 10_000_000);
    let mut rep = run_sharded(ctx, |w, nw, rep| {
        let ls = LangSet::new();
        let mut rng = Rng::derive(ctx.seed, "C15", w as u64);
        // bounded exhaustive part: every stream of up to 3 (thorough: 4) tokens over the small alphabet of each language
        // under EVERY assignment of {no hint, unrelated-to-predecessor, not-a-number-part} to its tokens
        let (n_small, cut) = streams::for_each_small_stream(&ls.lex, if ctx.quick() { 3 } else { 4 }, w, nw, &|| ctx.elapsed() > ctx.budget_s * 0.5, &mut |code, toks| {
            let d = toks.len() as u32;
            for mask in 0..3u32.pow(d) {
                let mut hinted: Vec<crate::api::IdTok> = toks.to_vec();
                let mut m = mask;
                for t in hinted.iter_mut() {
                    match m % 3 {
                        1 => t.sep = true,
                        2 => t.nan = true,
                        _ => {}
                    }
                    m /= 3;
                }
                let v = check_stream(&ls, code, &hinted);
                rep.eval(streams::stream_hash(code, &hinted) ^ 0xe4, v.n_f0 > 0 || v.hints > 0);
                rep.add("numbers_recognised", v.n_f0 as u64);
                rep.add("hinted_tokens", v.hints as u64);
                rep.count("exhaustive_hint_assignments");
                if let Some(msg) = v.failure {
                    let clause = msg.split(':').next().unwrap_or("").to_string();
                    rep.violation(
                        &format!("{}:{}", code, clause),
                        jobj! {"kind" => "stream", "lang" => code, "tokens" => streams::stream_json(&hinted)},
                        format!("[{}] {} | stream: {}", code, msg, streams::show_stream(&hinted)),
                    );
                }
            }
        });
        rep.add("exhaustive_small_alphabet_streams", n_small);
        if cut {
            rep.count("exhaustive_enumeration_cut_by_budget");
        }
        for i in 0..(n_streams / nw as u64) {
            if i % 128 == 0 && ctx.over_budget() {
                break;
            }
            let code = LANGS[(i % 7) as usize];
            let lex = ls.lexicon(code);
            let mut opts = StreamOpts::hinted(if i % 5 == 0 { 40 } else { 14 });
            if i % 4 == 0 {
                opts.sep_permille = 200;
            }
            if i % 7 == 3 {
                opts.ws_tokens = false;
            }
            let toks = gen_stream(&mut rng, lex, &opts);
            crate::core::set_current(code, "find_numbers_iter / find_numbers", &streams::show_stream(&toks));
            let v = check_stream(&ls, code, &toks);
            rep.eval(streams::stream_hash(code, &toks), v.n_f0 > 0 || v.hints > 0);
            rep.add("numbers_recognised", v.n_f0 as u64);
            rep.add("hinted_tokens", v.hints as u64);
            if v.n_f0 >= 4 {
                rep.count("streams_with_4_or_more_numbers");
            }
            rep.max("max_lookahead_tokens_past_returned_number", v.max_lookahead as u64);
            if let Some(msg) = v.failure {
                let clause = msg.split(':').next().unwrap_or("").to_string();
                rep.violation(
                    &format!("{}:{}", code, clause),
                    jobj! {"kind" => "stream", "lang" => code, "tokens" => streams::stream_json(&toks)},
                    format!("[{}] {} | stream: {}", code, msg, streams::show_stream(&toks)),
                );
            } else if v.n_f0 >= 2 && v.hints > 0 && rep.want_sample() && rng.chance(1, 3000) {
                rep.sample(jobj! {"lang" => code, "stream (^ = unrelated to predecessor, ! = not a number part)" => streams::show_stream(&toks), "occurrences_at_0" => crate::api::show_occs(&ls.api(code).find(&toks, 0.0))});
            }
        }
    });
    if !ctx.quick() {
        super::legs::fuzz_leg(ctx, &mut rep, 45);
    }
    let rule = "cases = every stream of 1..3 (thorough 1..4) tokens over a 16-word alphabet per language under every assignment of the two hints to its tokens (counters exhaustive_*), and hinted grammar-noise token streams (6-20% separation hints, 4% not-a-number hints, whitespace tokens, random case, up to 40 words) at thresholds 0, 3, 10, inf: iterator output == batch output then None twice more; 0 tokens pulled before the first request and never more than up to the end of the second number after the returned one (counted with a wrapping iterator); the token presented to nt_separated as `previous` is always the predecessor; no occurrence spans a separation-hinted token and its predecessor; hinted stream == same stream with a ',' token inserted; no occurrence contains a not-a-number token; non-trivial = stream with a recognised number or a hint";
    finish(ctx, rep, rule, &["hints are only placed on tokens the scanner does not skip (not on whitespace or lone hyphens)"], vec![])
}

pub fn replay(case: &J) -> Vec<String> {
    let ls = LangSet::new();
    let code = case.str_of("lang");
    let toks = streams::stream_from_json(case.get("tokens").unwrap_or(&J::Null));
    check_stream(&ls, &code, &toks).failure.into_iter().collect()
}
