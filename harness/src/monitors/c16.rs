//! C16 Leading zeros are kept; zeros never attach after a number (conditional on C01 for the same n).

use crate::api::LANGS;
use crate::core::{finish, run_sharded, Ctx, Outcome, Report};
use crate::gen;
use crate::jobj;
use crate::json::J;
use crate::lexicon::{PUNCT_AFTER, PUNCT_BEFORE};
use crate::rng::{hash_bytes, Rng};
use crate::spell;

use super::{in_context, judge_roundtrip, pick_fillers, LangSet, CONTEXT_NAMES, N_CONTEXTS};

pub fn judge_leading(ls: &LangSet, code: &str, n: u64, k: usize, phrase: &str, cid: usize, f: &[&str; 4], p: &str, q: &str) -> Option<String> {
    let api = ls.api(code);
    let info = spell::info(code);
    let digits = format!("{}{}", "0".repeat(k), n);
    let (text, expected) = in_context(cid, phrase, &digits, f, p, q, info.conj);
    judge_roundtrip(api, phrase, &text, &expected, &digits, n as f64, false, cid == 0)
}

pub fn judge_trailing(ls: &LangSet, code: &str, n: u64, int_phrase: &str) -> Option<String> {
    let api = ls.api(code);
    let info = spell::info(code);
    let text = format!("{} {}", int_phrase, info.zero);
    let r = api.replace(&text, 0.0);
    let expected = format!("{} 0", n);
    if r != expected {
        return Some(format!("replace_numbers_in_text({:?}, 0) = {:?}, expected {:?} (a zero after a number starts a new numeral)", text, r, expected));
    }
    let v = api.validate(&text);
    if v.is_ok() {
        return Some(format!("text2digits({:?}) = {:?}, expected an error (two numerals)", text, v));
    }
    // the same as a word stream in which the zero is said after a pause (it declares itself unrelated to the word before)
    let mut toks: Vec<crate::api::IdTok> = int_phrase.split(' ').filter(|w| !w.is_empty()).enumerate().map(|(i, w)| crate::api::IdTok::new(i as u64, w)).collect();
    let mut z = crate::api::IdTok::new(toks.len() as u64, info.zero);
    z.sep = true;
    toks.push(z);
    let occs = api.find(&toks, 0.0);
    if occs.len() != 2 || occs[0].text != n.to_string() || occs[1].text != "0" {
        return Some(format!("word stream of {:?} followed, after a pause, by {:?}: occurrences {} , expected {:?} then \"0\"", int_phrase, info.zero, crate::api::show_occs(&occs), n.to_string()));
    }
    None
}

/// English: zero dictated as `o` after a number (each `o` has a number word before it), twice in one text
pub fn judge_trailing_o(ls: &LangSet, a: u64, pa: &str, b: u64, pb: &str) -> Option<String> {
    let api = ls.api("en");
    let text = format!("{} o, {} o", pa, pb);
    let r = api.replace(&text, 0.0);
    let expected = format!("{} 0, {} 0", a, b);
    if r != expected {
        return Some(format!("replace_numbers_in_text({:?}, 0) = {:?}, expected {:?} (an `o` dictated after a number is a new numeral 0)", text, r, expected));
    }
    None
}

pub fn run(ctx: &Ctx) -> Outcome {
    let mut numbers: Vec<u64> = (1..2000).collect();
    numbers.extend(gen::group_sweep(ctx.seed).into_iter().filter(|n| *n >= 1 && *n < 1_000_000_000).step_by(if ctx.quick() { 5 } else { 1 }));
    numbers.extend(gen::boundaries().into_iter().filter(|n| *n >= 1 && *n < 1_000_000_000));
    let n_random = ctx.n(60_000, 1_200_000);
    let numbers = &numbers;
    let rep = run_sharded(ctx, |w, nw, rep| {
        let ls = LangSet::new();
        let mut rng = Rng::derive(ctx.seed, "C16", w as u64);
        if w == 0 {
            for code in LANGS {
                let z = spell::info(code).zero;
                rep.eval(hash_bytes(&[code.as_bytes(), b"lone-zero"]), true);
                let v = ls.api(code).validate(z);
                let r = ls.api(code).replace(z, 0.0);
                if v.as_deref() != Ok("0") || r != "0" {
                    rep.violation(&format!("{}:lone-zero", code), jobj! {"kind" => "lone-zero", "lang" => code}, format!("[{}] lone zero word {:?}: validate = {:?}, rewrite = {:?}, expected 0", code, z, v, r));
                }
            }
        }
        let mut work = |rep: &mut Report, rng: &mut Rng, n: u64, idx: usize, all_k: bool| {
            for code in LANGS {
                if !spell::cardinal_in_domain(code, n) {
                    continue;
                }
                let api = ls.api(code);
                let lex = ls.lexicon(code);
                let info = spell::info(code);
                // primary spelling, or (one time in three) another claimed variant
                let int_phrase = if idx % 3 == 2 {
                    let vs = spell::cardinal_variants(code, n);
                    vs[rng.usize(vs.len())].text.clone()
                } else {
                    spell::cardinal(code, n)
                };
                if api.validate(&int_phrase).as_deref() != Ok(n.to_string().as_str()) {
                    rep.count("skipped_number_fails_C01");
                    rep.eval(hash_bytes(&[code.as_bytes(), int_phrase.as_bytes()]), false);
                    continue;
                }
                let ks: Vec<usize> = if all_k { (1..=6).collect() } else { vec![1 + (idx + ctx.seed as usize) % 6, 1 + rng.usize(6)] };
                for k in ks {
                    let mut words: Vec<&str> = vec![info.zero; k];
                    words.push(&int_phrase);
                    let phrase = words.join(" ");
                    let cids: Vec<usize> = if all_k { (0..N_CONTEXTS).collect() } else { vec![0, 1 + rng.usize(N_CONTEXTS - 1)] };
                    for cid in cids {
                        let f = pick_fillers(rng, lex);
                        let p = rng.pick_str(&PUNCT_AFTER);
                        let q = rng.pick_str(&PUNCT_BEFORE);
                        rep.eval(hash_bytes(&[code.as_bytes(), phrase.as_bytes(), &[cid as u8]]), true);
                        rep.count(&format!("leading_zeros_k={}", k));
                        if let Some(msg) = judge_leading(&ls, code, n, k, &phrase, cid, &f, p, q) {
                            let fam = super::c01::failure_family(&ls, code, &phrase);
                            rep.violation(
                                &format!("{}:leading:{}", code, fam),
                                jobj! {"kind" => "leading-zeros", "lang" => code, "n" => n, "k" => k, "phrase" => phrase.as_str(), "context" => cid,
                                "fillers" => J::Arr(f.iter().map(|s| J::from(*s)).collect()), "punct" => p, "quote" => q},
                                format!("[{} n={} k={} context={}] {}", code, n, k, CONTEXT_NAMES[cid], msg),
                            );
                        } else if rep.want_sample() && rng.chance(1, 3000) {
                            rep.sample(jobj! {"lang" => code, "phrase" => phrase.as_str(), "context" => CONTEXT_NAMES[cid], "result" => format!("{}{}", "0".repeat(k), n)});
                        }
                    }
                }
                if code == "en" {
                    let b = 1 + gen::random_number(rng, 3);
                    let pb = spell::cardinal("en", b);
                    rep.eval(hash_bytes(&[b"en-o", int_phrase.as_bytes(), pb.as_bytes()]), true);
                    if let Some(msg) = judge_trailing_o(&ls, n, &int_phrase, b, &pb) {
                        rep.violation("en:trailing-o", jobj! {"kind" => "trailing-o", "lang" => "en", "n" => n, "phrase" => int_phrase.as_str(), "b" => b, "pb" => pb.as_str()}, format!("[en n={} b={}] {}", n, b, msg));
                    }
                }
                rep.eval(hash_bytes(&[code.as_bytes(), b"trail", int_phrase.as_bytes()]), true);
                if let Some(msg) = judge_trailing(&ls, code, n, &int_phrase) {
                    rep.violation(&format!("{}:trailing:{}", code, n % 100), jobj! {"kind" => "trailing-zero", "lang" => code, "n" => n, "phrase" => int_phrase.as_str()}, format!("[{} n={}] {}", code, n, msg));
                }
            }
        };
        for (idx, &n) in numbers.iter().enumerate() {
            if idx % nw != w {
                continue;
            }
            work(rep, &mut rng, n, idx, n < 120 || (!ctx.quick() && idx % 3 == 0));
        }
        for i in 0..(n_random / nw as u64) {
            if i % 64 == 0 && ctx.over_budget() {
                break;
            }
            let n = 1 + gen::random_number(&mut rng, 9) % 999_999_999;
            work(rep, &mut rng, n, i as usize, false);
        }
    });
    let rule = "cases = (language, k zero words + spelled n, context) for n in the C01 sampler within [1,10^9) whose own round-trip holds, k in 1..6; plus 'spelled n + zero word' (must give 'n 0' and fail validation) and the lone zero word; non-trivial = validate/rewrite/occurrence compared with '0'^k ++ decimal(n)";
    finish(ctx, rep, rule, &["a number that already fails the C01 round-trip is skipped and counted (it is C01's finding)"], vec![])
}

pub fn replay(case: &J) -> Vec<String> {
    let ls = LangSet::new();
    let code = case.str_of("lang");
    let n = case.get("n").and_then(|x| x.as_i64()).unwrap_or(0) as u64;
    match case.str_of("kind").as_str() {
        "trailing-zero" => judge_trailing(&ls, &code, n, &case.str_of("phrase")).into_iter().collect(),
        "trailing-o" => {
            let b = case.get("b").and_then(|x| x.as_i64()).unwrap_or(0) as u64;
            judge_trailing_o(&ls, n, &case.str_of("phrase"), b, &case.str_of("pb")).into_iter().collect()
        }
        "lone-zero" => {
            let z = spell::info(&code).zero;
            let v = ls.api(&code).validate(z);
            let r = ls.api(&code).replace(z, 0.0);
            if v.as_deref() != Ok("0") || r != "0" {
                vec![format!("lone zero: {:?} {:?}", v, r)]
            } else {
                vec![]
            }
        }
        _ => {
            let k = case.get("k").and_then(|x| x.as_i64()).unwrap_or(0) as usize;
            let cid = case.get("context").and_then(|x| x.as_i64()).unwrap_or(0) as usize;
            let fv: Vec<String> = case.get("fillers").and_then(|a| a.as_arr()).map(|a| a.iter().map(|x| x.as_str().unwrap_or("").to_string()).collect()).unwrap_or_default();
            let g = |i: usize| fv.get(i).map(|s| s.as_str()).unwrap_or("");
            let f: [&str; 4] = [g(0), g(1), g(2), g(3)];
            judge_leading(&ls, &code, n, k, &case.str_of("phrase"), cid, &f, &case.str_of("punct"), &case.str_of("quote")).into_iter().collect()
        }
    }
}
