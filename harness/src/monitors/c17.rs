//! C17 Whitespace kind and amount never matter (metamorphic monitor).

use crate::api::LANGS;
use crate::core::{finish, run_sharded, Ctx, Outcome};
use crate::jobj;
use crate::json::J;
use crate::lexicon::WS;
use crate::rng::{hash_bytes, Rng};

use super::{splice, workload_text, LangSet};

pub const THRESHOLDS: [f64; 3] = [0.0, 10.0, 3.0];

fn random_run(rng: &mut Rng) -> String {
    let k = 1 + rng.usize(3);
    (0..k).map(|_| rng.pick_str(&WS)).collect()
}

/// Replace every maximal whitespace run by another non-empty run; optionally add runs at both ends.
/// Returns (new text, number of runs substituted, token shift of spans).
pub fn substitute(rng: &mut Rng, s: &str) -> (String, usize, usize) {
    let mut out = String::new();
    let mut runs = 0;
    let mut shift = 0;
    if rng.chance(1, 2) {
        out.push_str(&random_run(rng));
        // a new leading token appears only if the text starts with a word character (or is empty)
        if s.chars().next().map(|c| c.is_alphanumeric()).unwrap_or(false) {
            shift = 1;
        }
    }
    let mut in_ws = false;
    for c in s.chars() {
        if c.is_whitespace() {
            if !in_ws {
                out.push_str(&random_run(rng));
                runs += 1;
                in_ws = true;
            }
        } else {
            in_ws = false;
            out.push(c);
        }
    }
    if rng.chance(1, 2) {
        out.push_str(&random_run(rng));
    }
    (out, runs, shift)
}

fn collapse(s: &str) -> String {
    s.split_whitespace().collect::<Vec<_>>().join(" ")
}

pub fn check(ls: &LangSet, code: &str, s: &str, w: &str, shift: usize) -> (usize, Option<String>) {
    let api = ls.api(code);
    let vs = api.validate(s);
    let vw = api.validate(w);
    if vs != vw {
        return (0, Some(format!("text2digits({:?}) = {:?} but with other whitespace text2digits({:?}) = {:?}", s, vs, w, vw)));
    }
    let mut n = 0;
    for &t in THRESHOLDS.iter() {
        let (_ts, os) = api.scan_text(s, t);
        let (tw, ow) = api.scan_text(w, t);
        n = n.max(os.len());
        let shifted: Vec<crate::api::Occ> = os.iter().map(|o| crate::api::Occ { start: o.start + shift, end: o.end + shift, ..o.clone() }).collect();
        if shifted != ow {
            return (n, Some(format!("threshold {}: occurrences for {:?} are {} but for {:?} they are {} (expected the same, spans shifted by {})", t, s, crate::api::show_occs(&os), w, crate::api::show_occs(&ow), shift)));
        }
        let rw = api.replace(w, t);
        match splice(&tw, &ow) {
            Ok(e) if e == rw => {}
            other => return (n, Some(format!("threshold {}: rewrite of {:?} is {:?}; splicing its own tokens gives {:?} (whitespace outside rewritten spans must pass through untouched)", t, w, rw, other))),
        }
        let rs = api.replace(s, t);
        if collapse(&rs) != collapse(&rw) {
            return (n, Some(format!("threshold {}: rewrites differ beyond whitespace: {:?} vs {:?}", t, rs, rw)));
        }
    }
    (n, None)
}

pub fn run(ctx: &Ctx) -> Outcome {
    let n_texts = ctx.n(600_000, 12_000_000);
    let mut rep = run_sharded(ctx, |wk, nw, rep| {
        let ls = LangSet::new();
        let mut rng = Rng::derive(ctx.seed, "C17", wk as u64);
        // bounded exhaustive part: every text of 2..3 (thorough: 2..4) words over the small alphabet of each language, its
        // single spaces replaced throughout by each other whitespace kind and by three multi-element runs
        const KINDS: [&str; 18] = ["  ", "\t", "\n", "\r\n", "\u{a0}", "\u{2009}", "\u{2003}", "\u{3000}", "\u{2028}", "\n\n", " \t ", "\r\n\r\n", "\u{b}", "\u{c}", "\u{85}", "\u{1680}", "\u{202f}", "\u{2029}"];
        let (n_small, cut) = crate::streams::for_each_small_stream(&ls.lex, if ctx.quick() { 3 } else { 4 }, wk, nw, &|| ctx.elapsed() > ctx.budget_s * 0.4, &mut |code, toks| {
            if toks.len() < 2 {
                return;
            }
            let words: Vec<&str> = toks.iter().map(|t| t.text.as_str()).collect();
            let s = words.join(" ");
            for k in KINDS.iter() {
                let w = words.join(k);
                let (n_occ, fail) = check(&ls, code, &s, &w, 0);
                rep.eval(hash_bytes(&[code.as_bytes(), s.as_bytes(), w.as_bytes()]), n_occ > 0);
                rep.add("whitespace_runs_substituted", (words.len() - 1) as u64);
                if let Some(msg) = fail {
                    rep.violation(&format!("{}:{}", code, msg.split(':').next().unwrap_or("").chars().take(20).collect::<String>()), jobj! {"kind" => "ws", "lang" => code, "s" => s.as_str(), "w" => w.as_str(), "shift" => 0usize}, format!("[{}] {}", code, msg));
                }
            }
        });
        rep.add("exhaustive_small_alphabet_texts", n_small);
        if cut {
            rep.count("exhaustive_enumeration_cut_by_budget");
        }
        for i in 0..(n_texts / nw as u64) {
            if i % 128 == 0 && ctx.over_budget() {
                break;
            }
            // English has its own whitespace-sensitive pass: give it a double share
            let code = if i % 4 == 0 { "en" } else { LANGS[(i % 7) as usize] };
            let lex = ls.lexicon(code);
            let mut s = if code == "en" && i % 8 == 0 { crate::gen::annot_en(&mut rng, lex, false) } else { workload_text(&mut rng, lex, 10) };
            if i % 512 == 5 {
                // the same short text at the end of a 10-30 KB document
                let words = 1500 + rng.usize(2500);
                s = format!("{}{}", crate::gen::long_filler_prefix(&mut rng, lex, words), s);
                rep.count("long_documents");
            }
            let (w, runs, shift) = substitute(&mut rng, &s);
            crate::core::set_current(code, "find_numbers / replace_numbers_in_text / text2digits", &w);
            let (n_occ, fail) = check(&ls, code, &s, &w, shift);
            rep.eval(hash_bytes(&[code.as_bytes(), s.as_bytes(), w.as_bytes()]), n_occ > 0 && runs > 0);
            rep.add("whitespace_runs_substituted", runs as u64);
            if let Some(msg) = fail {
                rep.violation(&format!("{}:{}", code, msg.split(':').next().unwrap_or("").chars().take(20).collect::<String>()), jobj! {"kind" => "ws", "lang" => code, "s" => s.as_str(), "w" => w.as_str(), "shift" => shift}, format!("[{}] {}", code, msg));
            } else if n_occ > 1 && rep.want_sample() && rng.chance(1, 4000) {
                rep.sample(jobj! {"lang" => code, "text" => s.as_str(), "substituted" => w.as_str(), "rewritten_at_0" => ls.api(code).replace(&w, 0.0)});
            }
        }
    });
    if !ctx.quick() {
        super::legs::fuzz_leg(ctx, &mut rep, 45);
    }
    let rule = "cases = every text of 2..3 (thorough 2..4) words over a 16-word alphabet per language with its spaces replaced throughout by each of 18 whitespace kinds / runs (counter exhaustive_small_alphabet_texts); (text, text with every maximal whitespace run replaced by a random run of 1..3 elements over the whole Unicode White_Space set (space, tab, LF, CRLF, CR, VT, FF, NEL, NBSP, ogham, U+2000..U+200A, U+2028, U+2029, U+202F, U+205F, ideographic) and runs added at either end); compared: validation result, occurrences tuple for tuple (spans shifted by the added leading token) at thresholds 0,3,10, rewrite of the substituted text against the splice of its own tokens, and both rewrites modulo whitespace; non-trivial = at least one whitespace run substituted and one number recognised";
    finish(ctx, rep, rule, &["only char::is_whitespace characters are used (zero-width space is not whitespace)"], vec![])
}

pub fn replay(case: &J) -> Vec<String> {
    let ls = LangSet::new();
    let shift = case.get("shift").and_then(|x| x.as_i64()).unwrap_or(0) as usize;
    check(&ls, &case.str_of("lang"), &case.str_of("s"), &case.str_of("w"), shift).1.into_iter().collect()
}
