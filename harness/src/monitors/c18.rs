//! C18 English `o` is read as zero only next to another number word (neighbour rule, differential on the real API).

use crate::core::{finish, run_sharded, Ctx, Outcome};
use crate::jobj;
use crate::json::J;
use crate::rng::{hash_bytes, Rng};

use super::LangSet;

pub const THRESHOLDS: [f64; 3] = [0.0, 5.0, 10.0];

pub struct Verdict {
    pub n_o: usize,
    pub qualifying: usize,
    pub circular: bool,
    pub failure: Option<String>,
}

/// Build s' (each qualifying `o` -> `zero`, each other `o` -> a safe filler) and compare occurrences.
pub fn check(ls: &LangSet, s: &str, filler: &str) -> Verdict {
    // through the concrete `English` type, then through the runtime-selectable `Language::english()` value: English is
    // English whichever way the caller holds it
    let v = check_via(ls, ls.api("en"), s, filler);
    if v.failure.is_some() || v.n_o == 0 || v.circular {
        return v;
    }
    let mut w = check_via(ls, ls.facades[ls.idx("en")].as_ref(), s, filler);
    if let Some(f) = w.failure.take() {
        w.failure = Some(format!("through Language::english(): {}", f));
        return w;
    }
    v
}

pub fn check_via(ls: &LangSet, api: &dyn crate::api::Api, s: &str, filler: &str) -> Verdict {
    let toks = api.tokens(s);
    let sig: Vec<usize> = (0..toks.len()).filter(|&i| !toks[i].text.chars().all(char::is_whitespace)).collect();
    let mut v = Verdict { n_o: 0, qualifying: 0, circular: false, failure: None };
    let mut subst: Vec<String> = toks.iter().map(|t| t.text.clone()).collect();
    for (j, &i) in sig.iter().enumerate() {
        if toks[i].text.to_lowercase() != "o" {
            continue;
        }
        v.n_o += 1;
        let neigh = |k: Option<usize>| -> (bool, bool) {
            match k {
                None => (false, false),
                Some(k) => {
                    let w = toks[sig[k]].text.to_lowercase();
                    if w == "o" {
                        (false, true)
                    } else {
                        // a number word: the running library says so, or the independent spellers use it to write numbers
                        // (`hundreds`, `thousand` ...) — the library's own answer must not be the only witness
                        (api.is_number_word(&w) || ls.lexicon("en").speller_words.binary_search(&w).is_ok(), false)
                    }
                }
            }
        };
        let (pn, po) = neigh(if j > 0 { Some(j - 1) } else { None });
        let (nn, no) = neigh(if j + 1 < sig.len() { Some(j + 1) } else { None });
        if pn || nn {
            v.qualifying += 1;
            subst[i] = "zero".to_string();
        } else if po || no {
            v.circular = true; // its only number-like neighbours are other `o`s: the statement is circular there
            return v;
        } else {
            subst[i] = filler.to_string();
        }
    }
    if v.n_o == 0 {
        return v;
    }
    let s2: String = subst.concat();
    for &t in THRESHOLDS.iter() {
        let (t1, o1) = api.scan_text(s, t);
        // the property is observed at replace_numbers_in_text: it must be the splice of exactly these occurrences
        let r = api.replace(s, t);
        match super::splice(&t1, &o1) {
            Ok(e) if e == r => {}
            other => {
                v.failure = Some(format!("threshold {}: replace_numbers_in_text({:?}) = {:?} but the occurrences found on its annotated tokens ({}) splice to {:?}", t, s, r, crate::api::show_occs(&o1), other));
                return v;
            }
        }
        let (_t2, o2) = api.scan_text(&s2, t);
        if o1 != o2 {
            v.failure = Some(format!(
                "threshold {}: {:?} gives {} but the same text with o->zero next to number words and o->{:?} elsewhere ({:?}) gives {}",
                t,
                s,
                crate::api::show_occs(&o1),
                filler,
                s2,
                crate::api::show_occs(&o2)
            ));
            return v;
        }
    }
    v
}

pub fn run(ctx: &Ctx) -> Outcome {
    let n_texts = ctx.n(1_500_000, 30_000_000);
    let mut rep = run_sharded(ctx, |w, nw, rep| {
        let ls = LangSet::new();
        let lex = ls.lexicon("en");
        let mut rng = Rng::derive(ctx.seed, "C18", w as u64);
        // bounded exhaustive part: every English text of up to 4 (thorough: 5) words over the small alphabet plus `o`, `O`
        // and the article `a`
        {
            let mut alpha = crate::streams::small_alphabet(lex);
            for extra in ["o", "O", "a"] {
                if !alpha.iter().any(|w| w == extra) {
                    alpha.push(extra.to_string());
                }
            }
            let k = alpha.len() as u64;
            let filler = lex.fillers.last().cloned().unwrap_or_default();
            let mut visited = 0u64;
            'outer: for depth in 1..=(if ctx.quick() { 4u32 } else { 5u32 }) {
                let total = k.pow(depth);
                let mut idx = w as u64;
                while idx < total {
                    if visited % 2048 == 0 && ctx.elapsed() > ctx.budget_s * 0.4 {
                        rep.count("exhaustive_enumeration_cut_by_budget");
                        break 'outer;
                    }
                    let toks = crate::streams::nth_small_stream(&alpha, depth, idx);
                    idx += nw as u64;
                    visited += 1;
                    if !toks.iter().any(|t| t.lower == "o") {
                        continue;
                    }
                    let s: String = toks.iter().map(|t| t.text.as_str()).collect::<Vec<_>>().join(" ");
                    let v = check(&ls, &s, &filler);
                    rep.eval(hash_bytes(&[s.as_bytes()]), v.n_o > 0 && !v.circular);
                    if v.circular {
                        rep.count("skipped_circular_o_next_to_o");
                    }
                    rep.add("o_tokens_judged", if v.circular { 0 } else { v.n_o as u64 });
                    rep.add("o_tokens_next_to_a_number_word", v.qualifying as u64);
                    rep.count("exhaustive_small_alphabet_texts_with_o");
                    if let Some(msg) = v.failure {
                        rep.violation("en:o", jobj! {"kind" => "o", "lang" => "en", "text" => s.as_str(), "filler" => filler.as_str()}, msg);
                    }
                }
            }
        }
        for i in 0..(n_texts / nw as u64) {
            if i % 256 == 0 && ctx.over_budget() {
                break;
            }
            let s = crate::gen::annot_en(&mut rng, lex, i % 2 == 0);
            let filler = rng.pick(&lex.fillers).clone();
            crate::core::set_current("en", "find_numbers on annotated tokens", &s);
            let v = check(&ls, &s, &filler);
            rep.eval(hash_bytes(&[s.as_bytes()]), v.n_o > 0 && !v.circular);
            if v.circular {
                rep.count("skipped_circular_o_next_to_o");
            }
            rep.add("o_tokens_judged", if v.circular { 0 } else { v.n_o as u64 });
            rep.add("o_tokens_next_to_a_number_word", v.qualifying as u64);
            if let Some(msg) = v.failure {
                rep.violation("en:o", jobj! {"kind" => "o", "lang" => "en", "text" => s.as_str(), "filler" => filler.as_str()}, msg);
            } else if v.n_o > 1 && !v.circular && rep.want_sample() && rng.chance(1, 5000) {
                rep.sample(jobj! {"text" => s.as_str(), "o_tokens" => v.n_o, "next_to_number_word" => v.qualifying, "rewritten_at_0" => ls.api("en").replace(&s, 0.0)});
            }
        }
    });
    if !ctx.quick() {
        super::legs::fuzz_leg(ctx, &mut rep, 45);
    }
    let rule = "cases = every English text of 1..4 (thorough 1..5) words over a 19-word alphabet (one word per grammar class, `o`, `O`, `a`) that contains an o (counter exhaustive_small_alphabet_texts_with_o), and English texts of 1..9 tokens over {o, O, number words, fillers, linking words, punctuation} joined by ASCII or Unicode whitespace; for each o the nearest non-whitespace neighbours are classified as number words when the running library accepts them on a fresh builder or the independent English speller uses them; the text with qualifying o -> zero and other o -> filler must give identical occurrences at thresholds 0,5,10; texts in which an o has only other o's as number-like neighbours are skipped (circular); non-trivial = text containing a judged o";
    finish(ctx, rep, rule, &["'is a number word' is asked of the running library through LangInterpreter::apply on a fresh builder"], vec![])
}

pub fn replay(case: &J) -> Vec<String> {
    let ls = LangSet::new();
    check(&ls, &case.str_of("text"), &case.str_of("filler")).failure.into_iter().collect()
}
