//! Oracle bundle for the coverage-guided workload (fuzz/fuzz_targets/text_oracles.rs).  The fuzzer only chooses the
//! input (language byte, threshold byte, UTF-8 text); the verdict is taken by the same oracle functions the monitors use.

use std::panic::{catch_unwind, AssertUnwindSafe};

use crate::api::{IdTok, LANGS};
use crate::rng::{hash_str, Rng};

use super::LangSet;

pub const THRESHOLDS: [f64; 6] = [0.0, 10.0, 3.0, f64::INFINITY, f64::NAN, -1.0];

pub const PROPS: [&str; 11] = ["C02", "C03", "C06", "C07", "C09", "C10", "C11", "C13", "C15", "C17", "C18"];

fn tokens_of(ls: &LangSet, code: &str, text: &str) -> Vec<IdTok> {
    ls.api(code)
        .tokens(text)
        .into_iter()
        .enumerate()
        .map(|(i, t)| {
            let mut k = IdTok::new(i as u64, &t.text);
            k.nan = t.nan;
            k
        })
        .collect()
}

/// caller-token stream written as text: pieces separated by whitespace, a leading `^` = "unrelated to my
/// predecessor", a leading `!` = "not a number part", the piece `~` = a whitespace token
fn marked_stream(text: &str) -> Vec<IdTok> {
    let mut out = Vec::new();
    // split on every whitespace character: a caller token is one word (or one separator), never two words
    for (i, piece) in text.split(char::is_whitespace).enumerate() {
        if piece.is_empty() {
            continue;
        }
        if piece == "~" {
            out.push(IdTok::new(i as u64, " "));
            continue;
        }
        let mut p = piece;
        let (mut sep, mut nan) = (false, false);
        loop {
            if let Some(r) = p.strip_prefix('^') {
                sep = true;
                p = r;
            } else if let Some(r) = p.strip_prefix('!') {
                nan = true;
                p = r;
            } else {
                break;
            }
        }
        if p.is_empty() {
            continue;
        }
        let mut t = IdTok::new(i as u64, p);
        // hints only on tokens the scanner does not skip
        if !crate::streams::is_skipped(p) {
            t.sep = sep;
            t.nan = nan;
        }
        out.push(t);
    }
    out
}

fn judge_one(ls: &LangSet, prop: &str, code: &str, t: f64, text: &str, rng: &mut Rng) -> Option<String> {
    match prop {
        "C02" => super::c02::check_text(ls, code, text, t).1.or_else(|| super::c02::check_stream(ls, code, &marked_stream(text), t).1),
        "C03" => super::c03::exercise(ls.api(code), text, t, rng.next_u64()),
        "C06" => {
            let toks = tokens_of(ls, code, text);
            super::c06::check_stream(ls, code, &toks, t).1.or_else(|| super::c06::check_stream(ls, code, &marked_stream(text), t).1)
        }
        "C07" => {
            let toks = tokens_of(ls, code, text);
            super::c07::check_stream(ls, code, &toks).2.or_else(|| super::c07::check_phrase(ls, code, text).1).or_else(|| super::c07::check_stream(ls, code, &marked_stream(text)).2)
        }
        "C09" => {
            let toks = tokens_of(ls, code, text);
            let model = text.to_lowercase() == text;
            super::c09::check_stream(ls, code, &toks, model).failure.or_else(|| super::c09::check_stream(ls, code, &marked_stream(text), model).failure)
        }
        "C10" => {
            // split at a char boundary chosen by the input
            let mut k = if text.is_empty() { 0 } else { rng.usize(text.len() + 1) };
            while !text.is_char_boundary(k) {
                k -= 1;
            }
            let lex = ls.lexicon(code);
            let s = format!(" {} {} {}. ", rng.pick(&lex.fillers), rng.pick(&lex.fillers), rng.pick(&lex.fillers));
            super::c10::check_split(ls, code, &text[..k], &s, &text[k..], if t.is_finite() { t } else { 5.0 })
        }
        "C11" => {
            let r = super::c11::recase(rng, text);
            super::c11::check(ls, code, text, &r).2
        }
        "C13" => {
            let conc = ls.api(code);
            let fac = crate::api::facade(code);
            super::c13::diff_text(conc, fac.as_ref(), text)
        }
        "C15" => {
            let mut toks: Vec<IdTok> = text.split_whitespace().enumerate().map(|(i, w)| IdTok::new(i as u64, w)).collect();
            for tk in toks.iter_mut() {
                let b = rng.below(16);
                // hints only on tokens the scanner does not skip (C15 assumption: a hint on a lone hyphen is not judged)
                if !crate::streams::is_skipped(&tk.text) {
                    tk.sep = b == 0 || b == 1;
                    tk.nan = b == 2;
                }
            }
            super::c15::check_stream(ls, code, &toks).failure.or_else(|| super::c15::check_stream(ls, code, &marked_stream(text)).failure)
        }
        "C17" => {
            let (w, _runs, shift) = super::c17::substitute(rng, text);
            super::c17::check(ls, code, text, &w, shift).1
        }
        "C18" => {
            if code != "en" {
                return None;
            }
            let filler = rng.pick(&ls.lexicon("en").fillers).clone();
            super::c18::check(ls, text, &filler).failure
        }
        _ => None,
    }
}

/// Judge one fuzzer input.  Returns a message starting with `FUZZ-VIOLATION property=<id>` on failure.
pub fn judge(ls: &LangSet, prop: &str, b0: u8, b1: u8, text: &str) -> Option<String> {
    let code = LANGS[(b0 % 7) as usize];
    let t = THRESHOLDS[(b1 as usize) % THRESHOLDS.len()];
    let props: Vec<&str> = if prop == "ALL" { PROPS.to_vec() } else { vec![prop] };
    for p in props {
        let mut rng = Rng::new(hash_str(text) ^ ((b0 as u64) << 8) ^ b1 as u64 ^ hash_str(p));
        let res = catch_unwind(AssertUnwindSafe(|| judge_one(ls, p, code, t, text, &mut rng)));
        match res {
            Ok(None) => {}
            Ok(Some(msg)) => return Some(format!("FUZZ-VIOLATION property={} lang={} threshold={} text={:?} :: {}", p, code, t, text, msg)),
            Err(_) => {
                let (loc, m) = crate::core::take_last_panic().unwrap_or(("?".into(), "?".into()));
                return Some(format!("FUZZ-VIOLATION property={} lang={} threshold={} text={:?} :: the library panicked at {} ({})", p, code, t, text, loc, m));
            }
        }
    }
    None
}

/// Write a seed corpus (one file per text: language byte, threshold byte, text) and a libFuzzer dictionary built from
/// the lexicons.  `worker fuzz-seeds <corpus_dir> <dict_file> <n_per_language>`
pub fn worker_seeds(args: &[String]) -> i32 {
    let dir = args.first().cloned().unwrap_or_default();
    let dict = args.get(1).cloned().unwrap_or_default();
    let n: usize = args.get(2).and_then(|s| s.parse().ok()).unwrap_or(150);
    let ls = LangSet::new();
    let _ = std::fs::create_dir_all(&dir);
    let mut rng = Rng::new(0x5eed);
    let mut words: std::collections::BTreeSet<String> = std::collections::BTreeSet::new();
    for (li, code) in LANGS.iter().enumerate() {
        let lex = ls.lexicon(code);
        for i in 0..n {
            let text = match i % 5 {
                4 => {
                    let toks = crate::streams::gen_stream(&mut rng, lex, &crate::streams::StreamOpts::hinted(8));
                    toks.iter().map(|t| if crate::streams::is_ws(&t.text) { "~".to_string() } else { format!("{}{}{}", if t.sep { "^" } else { "" }, if t.nan { "!" } else { "" }, t.text) }).collect::<Vec<_>>().join(" ")
                }
                0 => crate::spell::cardinal(code, crate::gen::random_number(&mut rng, 9)),
                1 => {
                    let os = crate::spell::ordinals(code, 1 + rng.below(2000).min(crate::spell::info(code).ord_max - 1));
                    os[rng.usize(os.len())].text.clone()
                }
                _ => super::workload_text(&mut rng, lex, 8),
            };
            let mut data = vec![li as u8, (i % THRESHOLDS.len()) as u8];
            data.extend_from_slice(text.as_bytes());
            let _ = std::fs::write(format!("{}/seed-{}-{}", dir, code, i), data);
        }
        for w in lex.number_words.iter().chain(lex.ordinal_words.iter()).chain(lex.linking.iter()).chain(lex.fillers.iter()) {
            words.insert(w.clone());
        }
        words.insert(lex.conj.to_string());
        words.insert(lex.sep.to_string());
        words.insert(lex.zero.to_string());
        for t in crate::lexicon::triggers(code) {
            words.insert(t.to_string());
        }
    }
    for w in crate::lexicon::PUNCT.iter().chain(crate::lexicon::WS.iter()).chain(crate::gen::HYPHEN_LIKE.iter()) {
        words.insert(w.to_string());
    }
    for w in ["-", "'", " - ", ". ", ", ", "\u{0}", "İ", "ß", " ^", " !", " ~ ", " ^!"] {
        words.insert(w.to_string());
    }
    let mut out = String::new();
    for w in words {
        if w.is_empty() || w.len() > 60 {
            continue;
        }
        out.push('"');
        for b in w.bytes() {
            if b == b'"' || b == b'\\' {
                out.push('\\');
                out.push(b as char);
            } else if (0x20..0x7f).contains(&b) {
                out.push(b as char);
            } else {
                out.push_str(&format!("\\x{:02X}", b));
            }
        }
        out.push_str("\"\n");
    }
    match std::fs::write(&dict, out) {
        Ok(()) => 0,
        Err(_) => 3,
    }
}
