//! Child-process legs: the same workloads re-run in another build configuration (debug profile, ASan, TSan, Miri).
//! A leg that cannot be built or started is inconclusive, never a violation.

use std::io::Read;
use std::process::{Command, Stdio};
use std::time::{Duration, Instant};

use crate::core::{Ctx, Report, Tier, Violation};
use crate::json::{self, J};

pub fn child_ctx(prop: &str, seed: u64) -> Ctx {
    let threads = std::env::var("VERIF_THREADS").ok().and_then(|v| v.parse().ok()).unwrap_or_else(|| std::thread::available_parallelism().map(|n| n.get()).unwrap_or(4));
    Ctx {
        prop: prop.to_string(),
        tier: Tier::Quick,
        seed,
        threads,
        verif_dir: std::env::var("VERIF_DIR").unwrap_or_else(|_| "/verif".into()),
        out_dir: std::env::var("VERIF_OUT_DIR").or_else(|_| std::env::var("VERIF_DIR")).unwrap_or_else(|_| "/verif".into()),
        scale: 1.0,
        start: Instant::now(),
        budget_s: std::env::var("VERIF_CHILD_BUDGET_S").ok().and_then(|v| v.parse().ok()).unwrap_or(300.0),
    }
}

pub fn report_to_json(rep: &Report) -> J {
    let mut counters = J::obj();
    for (k, v) in &rep.counters {
        counters.set(k, *v);
    }
    let mut sets = J::obj();
    for (k, v) in &rep.sets {
        sets.set(k, v.len());
    }
    let viols: Vec<J> = rep
        .violations
        .iter()
        .map(|v| crate::jobj! {"key" => v.key.as_str(), "case" => v.case.clone(), "message" => v.message.as_str()})
        .collect();
    crate::jobj! {
        "evaluations" => rep.evaluations,
        "distinct" => rep.distinct.len(),
        "violation_total" => rep.violation_total,
        "counters" => counters,
        "sets" => sets,
        "violations" => J::Arr(viols),
        "harness_errors" => J::Arr(rep.harness_errors.iter().map(|s| J::Str(s.clone())).collect()),
        "notes" => J::Arr(rep.notes.iter().map(|s| J::Str(s.clone())).collect())
    }
}

pub fn write_child_report(path: &str, rep: &Report) -> i32 {
    let j = report_to_json(rep);
    if path.is_empty() || path == "-" {
        println!("{}", j.to_string());
        return 0;
    }
    match std::fs::write(path, j.to_string()) {
        Ok(()) => 0,
        Err(e) => {
            eprintln!("cannot write child report {}: {}", path, e);
            3
        }
    }
}

pub struct ChildResult {
    pub started: bool,
    pub timed_out: bool,
    pub exit_code: Option<i32>,
    pub signal: Option<i32>,
    pub stdout: Vec<u8>,
    pub stderr: Vec<u8>,
    pub wall_s: f64,
}

/// Run a command with piped stdout/stderr and a wall-clock watchdog (firing = inconclusive, decided by the caller).
pub fn run_child(cmd: &mut Command, timeout_s: u64) -> ChildResult {
    let t0 = Instant::now();
    cmd.stdin(Stdio::null()).stdout(Stdio::piped()).stderr(Stdio::piped());
    let mut child = match cmd.spawn() {
        Ok(c) => c,
        Err(e) => {
            return ChildResult { started: false, timed_out: false, exit_code: None, signal: None, stdout: vec![], stderr: e.to_string().into_bytes(), wall_s: 0.0 };
        }
    };
    let mut so = child.stdout.take().unwrap();
    let mut se = child.stderr.take().unwrap();
    let h1 = std::thread::spawn(move || {
        let mut v = Vec::new();
        let _ = so.read_to_end(&mut v);
        v
    });
    let h2 = std::thread::spawn(move || {
        let mut v = Vec::new();
        let _ = se.read_to_end(&mut v);
        v
    });
    let mut timed_out = false;
    let status = loop {
        match child.try_wait() {
            Ok(Some(st)) => break Some(st),
            Ok(None) => {
                if t0.elapsed() > Duration::from_secs(timeout_s) {
                    let _ = child.kill();
                    timed_out = true;
                    break child.wait().ok();
                }
                std::thread::sleep(Duration::from_millis(20));
            }
            Err(_) => break None,
        }
    };
    let stdout = h1.join().unwrap_or_default();
    let stderr = h2.join().unwrap_or_default();
    #[cfg(unix)]
    let signal = {
        use std::os::unix::process::ExitStatusExt;
        status.as_ref().and_then(|s| s.signal())
    };
    #[cfg(not(unix))]
    let signal = None;
    ChildResult { started: true, timed_out, exit_code: status.and_then(|s| s.code()), signal, stdout, stderr, wall_s: t0.elapsed().as_secs_f64() }
}

pub fn merge_child_json(rep: &mut Report, leg: &str, j: &J) {
    let evals = j.get("evaluations").and_then(|x| x.as_i64()).unwrap_or(0) as u64;
    rep.add(&format!("leg_{}_evaluations", leg), evals);
    rep.evaluations += evals;
    let d = j.get("distinct").and_then(|x| x.as_i64()).unwrap_or(0) as u64;
    rep.add(&format!("leg_{}_distinct", leg), d);
    rep.distinct_external += d;
    if let Some(J::Obj(cs)) = j.get("counters") {
        for (k, v) in cs {
            rep.add(&format!("leg_{}:{}", leg, k), v.as_i64().unwrap_or(0) as u64);
        }
    }
    if let Some(J::Obj(cs)) = j.get("sets") {
        for (k, v) in cs {
            rep.add(&format!("leg_{}:distinct_{}", leg, k), v.as_i64().unwrap_or(0) as u64);
        }
    }
    if let Some(vs) = j.get("violations").and_then(|v| v.as_arr()) {
        for v in vs {
            let mut case = v.get("case").cloned().unwrap_or(J::obj());
            case.set("leg", leg);
            rep.violation_total += 1;
            let key = format!("leg-{}:{}", leg, v.str_of("key"));
            if !rep.violations.iter().any(|x| x.key == key) {
                rep.violations.push(Violation { key, case, message: format!("[leg {}] {}", leg, v.str_of("message")) });
            }
        }
    }
    if let Some(es) = j.get("harness_errors").and_then(|v| v.as_arr()) {
        for e in es {
            rep.inconclusive.push(format!("leg={} reason=harness error in child: {}", leg, e.as_str().unwrap_or("")));
        }
    }
}

/// Run `<binary from env> worker <args...> <result file>`; merge its report.  Returns the raw child result so that
/// callers for which a crash is itself an observation (C03, C14) can look at it.
pub fn run_leg(ctx: &Ctx, rep: &mut Report, leg: &str, env_var: &str, args: &[&str], timeout_s: u64) -> Option<ChildResult> {
    if let Ok(e) = std::env::var(format!("{}_ERROR", env_var)) {
        rep.inconclusive.push(format!("leg={} reason={}", leg, e));
        return None;
    }
    let bin = match std::env::var(env_var) {
        Ok(b) if !b.is_empty() => b,
        _ => {
            rep.notes.push(format!("leg {} not requested for this run", leg));
            return None;
        }
    };
    let result_file = format!("{}/harness/target/leg-{}-{}-{}.json", ctx.verif_dir, ctx.prop, leg, std::process::id());
    let _ = std::fs::remove_file(&result_file);
    let mut cmd = Command::new(&bin);
    cmd.arg("worker");
    for a in args {
        cmd.arg(a);
    }
    cmd.arg(&result_file);
    cmd.env("VERIF_DIR", &ctx.verif_dir);
    let r = run_child(&mut cmd, timeout_s);
    if !r.started {
        rep.inconclusive.push(format!("leg={} reason=cannot start {}: {}", leg, bin, String::from_utf8_lossy(&r.stderr)));
        return None;
    }
    if r.timed_out {
        rep.inconclusive.push(format!("leg={} reason=outer watchdog of {} s fired", leg, timeout_s));
        return Some(r);
    }
    match std::fs::read_to_string(&result_file).ok().and_then(|s| json::parse(&s).ok()) {
        Some(j) => {
            merge_child_json(rep, leg, &j);
            rep.add(&format!("leg_{}_wall_ms", leg), (r.wall_s * 1000.0) as u64);
        }
        None => {
            // no report: the caller decides what a crash means; by default it is inconclusive
            rep.notes.push(format!("leg {} produced no report (exit {:?}, signal {:?})", leg, r.exit_code, r.signal));
        }
    }
    let _ = std::fs::remove_file(&result_file);
    Some(r)
}


// ---------------------------------------------------------------------------------------------
// coverage-guided workload leg (thorough tier): libFuzzer chooses inputs, the monitors' own oracles judge them
// ---------------------------------------------------------------------------------------------

fn hex(data: &[u8]) -> String {
    data.iter().map(|b| format!("{:02x}", b)).collect()
}

pub fn unhex(s: &str) -> Vec<u8> {
    (0..s.len() / 2).filter_map(|i| u8::from_str_radix(&s[2 * i..2 * i + 2], 16).ok()).collect()
}

/// judge raw fuzzer bytes in-process with the oracle bundle of `prop`
pub fn judge_fuzz_bytes(prop: &str, data: &[u8]) -> Option<String> {
    if data.len() < 3 {
        return None;
    }
    let text = std::str::from_utf8(&data[2..]).ok()?;
    let ls = super::LangSet::new();
    super::fuzz_oracles::judge(&ls, prop, data[0], data[1], text)
}

pub fn fuzz_leg(ctx: &Ctx, rep: &mut Report, secs: u64) {
    if let Ok(e) = std::env::var("T2N_LEG_FUZZ_ERROR") {
        rep.inconclusive.push(format!("leg=fuzz reason={}", e));
        return;
    }
    let bin = match std::env::var("T2N_LEG_FUZZ") {
        Ok(b) if !b.is_empty() => b,
        _ => {
            rep.notes.push("leg fuzz not requested for this run".into());
            return;
        }
    };
    let base = format!("{}/harness/fuzz/work-{}-{}", ctx.verif_dir, ctx.prop, std::process::id());
    let corpus = format!("{}/corpus", base);
    let art = format!("{}/artifacts/", base);
    let dict = format!("{}/dict", base);
    let _ = std::fs::create_dir_all(&corpus);
    let _ = std::fs::create_dir_all(&art);
    if super::fuzz_oracles::worker_seeds(&[corpus.clone(), dict.clone(), "120".to_string()]) != 0 {
        rep.inconclusive.push("leg=fuzz reason=cannot write the seed corpus".into());
        return;
    }
    let mut c = Command::new(&bin);
    c.arg(&corpus).args([
        &format!("-dict={}", dict),
        &format!("-max_total_time={}", secs),
        &format!("-fork={}", ctx.threads.max(2)),
        "-timeout=20",
        "-rss_limit_mb=4096",
        &format!("-artifact_prefix={}", art),
        "-max_len=400",
        &format!("-seed={}", ctx.seed.max(1)),
    ]);
    c.env("T2N_FUZZ_PROP", &ctx.prop).env("ASAN_OPTIONS", "detect_leaks=0:abort_on_error=1").current_dir(&base);
    // stop as soon as one artifact exists (fork mode keeps going otherwise)
    let art2 = art.clone();
    let stop = std::sync::Arc::new(std::sync::atomic::AtomicBool::new(false));
    let stop2 = stop.clone();
    let watcher = std::thread::spawn(move || {
        while !stop2.load(std::sync::atomic::Ordering::Relaxed) {
            std::thread::sleep(Duration::from_millis(500));
            if std::fs::read_dir(&art2).map(|d| d.count() > 0).unwrap_or(false) {
                // give the other jobs a moment, then end the whole process group of the fuzzer
                std::thread::sleep(Duration::from_millis(1500));
                let _ = Command::new("pkill").args(["-f", &art2]).status();
                break;
            }
        }
    });
    let r = run_child(&mut c, secs + 120);
    stop.store(true, std::sync::atomic::Ordering::Relaxed);
    let _ = watcher.join();
    let err = String::from_utf8_lossy(&r.stderr).to_string();
    // coverage figures from the last status line
    if let Some(line) = err.lines().rev().find(|l| l.contains("cov: ") && l.starts_with('#')) {
        let num = |key: &str| -> u64 { line.split(key).nth(1).and_then(|x| x.split_whitespace().next()).and_then(|x| x.parse().ok()).unwrap_or(0) };
        let execs: u64 = line.trim_start_matches('#').split(':').next().and_then(|x| x.parse().ok()).unwrap_or(0);
        rep.add("leg_fuzz_executions", execs);
        rep.add("leg_fuzz_coverage_edges", num("cov: "));
        rep.add("leg_fuzz_features", num("ft: "));
        rep.add("leg_fuzz_corpus_inputs", num("corp: "));
        rep.evaluations += execs;
        rep.distinct_external += num("corp: ");
    } else if !r.started {
        rep.inconclusive.push(format!("leg=fuzz reason=cannot start {}", bin));
    } else {
        rep.notes.push("fuzz leg: no status line seen".into());
    }
    // artifacts
    let mut files: Vec<std::path::PathBuf> = std::fs::read_dir(&art).map(|d| d.flatten().map(|e| e.path()).collect()).unwrap_or_default();
    files.sort();
    let mut reported = 0;
    for f in files {
        let name = f.file_name().map(|n| n.to_string_lossy().to_string()).unwrap_or_default();
        let data = std::fs::read(&f).unwrap_or_default();
        if name.starts_with("oom-") {
            rep.inconclusive.push("leg=fuzz reason=an input exceeded the memory limit of the fuzzer job".into());
            continue;
        }
        if name.starts_with("timeout-") && ctx.prop != "C03" {
            rep.notes.push("fuzz leg: an input exceeded the 20 s per-input limit (not judged for this property)".into());
            continue;
        }
        if reported >= 3 {
            break;
        }
        let case = crate::jobj! {"kind" => "fuzz", "data_hex" => hex(&data), "text" => String::from_utf8_lossy(data.get(2..).unwrap_or(&[])).to_string(), "artifact" => name.as_str()};
        let msg = std::panic::catch_unwind(|| judge_fuzz_bytes(&ctx.prop, &data)).unwrap_or(Some("the oracle bundle panicked while replaying the artifact".into()));
        match msg {
            Some(m) => {
                reported += 1;
                rep.violation(&format!("fuzz:{}", m.split("::").nth(1).unwrap_or("").chars().take(40).collect::<String>()), case, format!("[leg fuzz] {}", m));
            }
            None => {
                if name.starts_with("crash-") || name.starts_with("timeout-") {
                    // the fuzzer process died on this input but the in-process replay returns: a fatal signal (stack
                    // overflow, sanitizer report) or a non-returning call in the sanitized build
                    let tail: String = err.lines().filter(|l| l.contains("ERROR") || l.contains("overflow") || l.contains("SUMMARY")).take(3).collect::<Vec<_>>().join(" | ");
                    reported += 1;
                    rep.violation(&format!("fuzz-crash:{}", tail.chars().take(60).collect::<String>()), case, format!("[leg fuzz] the sanitized fuzz target died on this input ({}): {}", name, tail.chars().take(400).collect::<String>()));
                }
            }
        }
    }
    let _ = std::fs::remove_dir_all(&base);
}
