//! Child-process legs: the same workloads re-run in another build configuration (debug profile, ASan, TSan, Miri).
//! A leg that cannot be built or started is inconclusive, never a violation.

use std::io::Read;
use std::process::{Command, Stdio};
use std::time::{Duration, Instant};

use crate::core::{Ctx, Report, Tier, Violation};
use crate::json::{self, J};

pub fn child_ctx(prop: &str, seed: u64) -> Ctx {
    let threads = std::env::var("VERIF_THREADS").ok().and_then(|v| v.parse().ok()).unwrap_or_else(|| std::thread::available_parallelism().map(|n| n.get()).unwrap_or(4));
    Ctx {
        prop: prop.to_string(),
        tier: Tier::Quick,
        seed,
        threads,
        verif_dir: std::env::var("VERIF_DIR").unwrap_or_else(|_| "/verif".into()),
        out_dir: std::env::var("VERIF_OUT_DIR").or_else(|_| std::env::var("VERIF_DIR")).unwrap_or_else(|_| "/verif".into()),
        scale: 1.0,
        start: Instant::now(),
        budget_s: std::env::var("VERIF_CHILD_BUDGET_S").ok().and_then(|v| v.parse().ok()).unwrap_or(300.0),
    }
}

pub fn report_to_json(rep: &Report) -> J {
    let mut counters = J::obj();
    for (k, v) in &rep.counters {
        counters.set(k, *v);
    }
    let mut sets = J::obj();
    for (k, v) in &rep.sets {
        sets.set(k, v.len());
    }
    let viols: Vec<J> = rep
        .violations
        .iter()
        .map(|v| crate::jobj! {"key" => v.key.as_str(), "case" => v.case.clone(), "message" => v.message.as_str()})
        .collect();
    crate::jobj! {
        "evaluations" => rep.evaluations,
        "distinct" => rep.distinct.len(),
        "violation_total" => rep.violation_total,
        "counters" => counters,
        "sets" => sets,
        "violations" => J::Arr(viols),
        "harness_errors" => J::Arr(rep.harness_errors.iter().map(|s| J::Str(s.clone())).collect()),
        "notes" => J::Arr(rep.notes.iter().map(|s| J::Str(s.clone())).collect())
    }
}

pub fn write_child_report(path: &str, rep: &Report) -> i32 {
    let j = report_to_json(rep);
    if path.is_empty() || path == "-" {
        println!("{}", j.to_string());
        return 0;
    }
    match std::fs::write(path, j.to_string()) {
        Ok(()) => 0,
        Err(e) => {
            eprintln!("cannot write child report {}: {}", path, e);
            3
        }
    }
}

pub struct ChildResult {
    pub started: bool,
    pub timed_out: bool,
    pub exit_code: Option<i32>,
    pub signal: Option<i32>,
    pub stdout: Vec<u8>,
    pub stderr: Vec<u8>,
    pub wall_s: f64,
}

/// Run a command with piped stdout/stderr and a wall-clock watchdog (firing = inconclusive, decided by the caller).
pub fn run_child(cmd: &mut Command, timeout_s: u64) -> ChildResult {
    let t0 = Instant::now();
    cmd.stdin(Stdio::null()).stdout(Stdio::piped()).stderr(Stdio::piped());
    let mut child = match cmd.spawn() {
        Ok(c) => c,
        Err(e) => {
            return ChildResult { started: false, timed_out: false, exit_code: None, signal: None, stdout: vec![], stderr: e.to_string().into_bytes(), wall_s: 0.0 };
        }
    };
    let mut so = child.stdout.take().unwrap();
    let mut se = child.stderr.take().unwrap();
    let h1 = std::thread::spawn(move || {
        let mut v = Vec::new();
        let _ = so.read_to_end(&mut v);
        v
    });
    let h2 = std::thread::spawn(move || {
        let mut v = Vec::new();
        let _ = se.read_to_end(&mut v);
        v
    });
    let mut timed_out = false;
    let status = loop {
        match child.try_wait() {
            Ok(Some(st)) => break Some(st),
            Ok(None) => {
                if t0.elapsed() > Duration::from_secs(timeout_s) {
                    let _ = child.kill();
                    timed_out = true;
                    break child.wait().ok();
                }
                std::thread::sleep(Duration::from_millis(20));
            }
            Err(_) => break None,
        }
    };
    let stdout = h1.join().unwrap_or_default();
    let stderr = h2.join().unwrap_or_default();
    #[cfg(unix)]
    let signal = {
        use std::os::unix::process::ExitStatusExt;
        status.as_ref().and_then(|s| s.signal())
    };
    #[cfg(not(unix))]
    let signal = None;
    ChildResult { started: true, timed_out, exit_code: status.and_then(|s| s.code()), signal, stdout, stderr, wall_s: t0.elapsed().as_secs_f64() }
}

pub fn merge_child_json(rep: &mut Report, leg: &str, j: &J) {
    let evals = j.get("evaluations").and_then(|x| x.as_i64()).unwrap_or(0) as u64;
    rep.add(&format!("leg_{}_evaluations", leg), evals);
    rep.evaluations += evals;
    let d = j.get("distinct").and_then(|x| x.as_i64()).unwrap_or(0) as u64;
    rep.add(&format!("leg_{}_distinct", leg), d);
    rep.distinct_external += d;
    if let Some(J::Obj(cs)) = j.get("counters") {
        for (k, v) in cs {
            rep.add(&format!("leg_{}:{}", leg, k), v.as_i64().unwrap_or(0) as u64);
        }
    }
    if let Some(J::Obj(cs)) = j.get("sets") {
        for (k, v) in cs {
            rep.add(&format!("leg_{}:distinct_{}", leg, k), v.as_i64().unwrap_or(0) as u64);
        }
    }
    if let Some(vs) = j.get("violations").and_then(|v| v.as_arr()) {
        for v in vs {
            let mut case = v.get("case").cloned().unwrap_or(J::obj());
            case.set("leg", leg);
            rep.violation_total += 1;
            let key = format!("leg-{}:{}", leg, v.str_of("key"));
            if !rep.violations.iter().any(|x| x.key == key) {
                rep.violations.push(Violation { key, case, message: format!("[leg {}] {}", leg, v.str_of("message")) });
            }
        }
    }
    if let Some(es) = j.get("harness_errors").and_then(|v| v.as_arr()) {
        for e in es {
            rep.inconclusive.push(format!("leg={} reason=harness error in child: {}", leg, e.as_str().unwrap_or("")));
        }
    }
}

/// Run `<binary from env> worker <args...> <result file>`; merge its report.  Returns the raw child result so that
/// callers for which a crash is itself an observation (C03, C14) can look at it.
pub fn run_leg(ctx: &Ctx, rep: &mut Report, leg: &str, env_var: &str, args: &[&str], timeout_s: u64) -> Option<ChildResult> {
    if let Ok(e) = std::env::var(format!("{}_ERROR", env_var)) {
        rep.inconclusive.push(format!("leg={} reason={}", leg, e));
        return None;
    }
    let bin = match std::env::var(env_var) {
        Ok(b) if !b.is_empty() => b,
        _ => {
            rep.notes.push(format!("leg {} not requested for this run", leg));
            return None;
        }
    };
    let result_file = format!("{}/harness/target/leg-{}-{}-{}.json", ctx.verif_dir, ctx.prop, leg, std::process::id());
    let _ = std::fs::remove_file(&result_file);
    let mut cmd = Command::new(&bin);
    cmd.arg("worker");
    for a in args {
        cmd.arg(a);
    }
    cmd.arg(&result_file);
    cmd.env("VERIF_DIR", &ctx.verif_dir);
    let r = run_child(&mut cmd, timeout_s);
    if !r.started {
        rep.inconclusive.push(format!("leg={} reason=cannot start {}: {}", leg, bin, String::from_utf8_lossy(&r.stderr)));
        return None;
    }
    if r.timed_out {
        rep.inconclusive.push(format!("leg={} reason=outer watchdog of {} s fired", leg, timeout_s));
        return Some(r);
    }
    match std::fs::read_to_string(&result_file).ok().and_then(|s| json::parse(&s).ok()) {
        Some(j) => {
            merge_child_json(rep, leg, &j);
            rep.add(&format!("leg_{}_wall_ms", leg), (r.wall_s * 1000.0) as u64);
        }
        None => {
            // no report: the caller decides what a crash means; by default it is inconclusive
            rep.notes.push(format!("leg {} produced no report (exit {:?}, signal {:?})", leg, r.exit_code, r.signal));
        }
    }
    let _ = std::fs::remove_file(&result_file);
    Some(r)
}
