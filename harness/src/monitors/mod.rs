//! One oracle per property.

use crate::api::{self, Api};
use crate::core::{Ctx, Outcome};
use crate::json::J;
use crate::lexicon::Lexicon;

pub mod c01;
pub mod c02;
pub mod c03;
pub mod c04;
pub mod c05;
pub mod c06;
pub mod c07;
pub mod c08;
pub mod c09;
pub mod c10;
pub mod c11;
pub mod c12;
pub mod c13;
pub mod c14;
pub mod c15;
pub mod c16;
pub mod c17;
pub mod c18;
pub mod fuzz_oracles;
pub mod legs;

pub struct LangSet {
    pub apis: Vec<Box<dyn Api>>,
    pub lex: Vec<Lexicon>,
    /// the runtime-selectable `Language` values, one per language (same order)
    pub facades: Vec<Box<dyn Api>>,
}

impl LangSet {
    /// fresh interpreters + lexicons (each worker thread builds its own)
    pub fn new() -> LangSet {
        let apis = api::all_concrete();
        let lex = apis.iter().map(|a| Lexicon::build(a.as_ref())).collect();
        let facades = api::LANGS.iter().map(|c| api::facade(c)).collect();
        LangSet { apis, lex, facades }
    }
    /// Polyglot process: one case in eight (chosen by the hash of the phrase, so that a replay does the same) is first
    /// shown to every OTHER language, through the concrete types and through the runtime-selectable values, on this
    /// thread; results are discarded.  A service that tries each language in turn does exactly this, and whatever those
    /// calls leave behind (a memo keyed by the text but not by the language, a shared scratch value) must not change how
    /// the phrase is then read in its own language.  Returns true when the probe was made.
    pub fn polyglot_probe(&self, code: &str, phrase: &str, text: &str) -> bool {
        if crate::rng::hash_str(phrase) % 8 != 0 {
            return false;
        }
        for (i, c) in api::LANGS.iter().enumerate() {
            if *c != code {
                std::hint::black_box(self.apis[i].validate(phrase).is_ok());
                std::hint::black_box(self.facades[i].validate(phrase).is_ok());
                std::hint::black_box(self.facades[i].replace(text, 0.0).len());
                std::hint::black_box(self.apis[i].replace(text, 0.0).len());
            }
        }
        true
    }
    pub fn idx(&self, code: &str) -> usize {
        api::LANGS.iter().position(|c| *c == code).expect("language code")
    }
    pub fn api(&self, code: &str) -> &dyn Api {
        self.apis[self.idx(code)].as_ref()
    }
    pub fn lexicon(&self, code: &str) -> &Lexicon {
        &self.lex[self.idx(code)]
    }
}

pub fn run(ctx: &Ctx) -> Outcome {
    match ctx.prop.as_str() {
        "C01" => c01::run(ctx),
        "C03" => c03::run(ctx),
        "C04" => c04::run(ctx),
        "C05" => c05::run(ctx),
        "C08" => c08::run(ctx),
        "C06" => c06::run(ctx),
        "C07" => c07::run(ctx),
        "C09" => c09::run(ctx),
        "C15" => c15::run(ctx),
        "C16" => c16::run(ctx),
        "C02" => c02::run(ctx),
        "C10" => c10::run(ctx),
        "C11" => c11::run(ctx),
        "C17" => c17::run(ctx),
        "C18" => c18::run(ctx),
        "C12" => c12::run(ctx),
        "C13" => c13::run(ctx),
        "C14" => c14::run(ctx),
        other => {
            println!("ERROR unknown or unbuilt property {}", other);
            Outcome { exit_code: 2 }
        }
    }
}

/// Re-execute one recorded witness; returns the failure messages (empty = passes now).
pub fn replay(ctx: &Ctx, case: &J) -> Vec<String> {
    match case.str_of("kind").as_str() {
        "panic" => return replay_panic(case),
        "fuzz" => return legs::judge_fuzz_bytes(&ctx.prop, &legs::unhex(&case.str_of("data_hex"))).into_iter().collect(),
        "runner-crash" => return vec!["runner-level crash record: re-run the check with the recorded seed".into()],
        _ => {}
    }
    match ctx.prop.as_str() {
        "C01" => c01::replay(case),
        "C03" => c03::replay(case),
        "C04" => c04::replay(case),
        "C05" => c05::replay(case),
        "C08" => c08::replay(case),
        "C06" => c06::replay(case),
        "C07" => c07::replay(case),
        "C09" => c09::replay(case),
        "C15" => c15::replay(case),
        "C16" => c16::replay(case),
        "C02" => c02::replay(case),
        "C10" => c10::replay(case),
        "C11" => c11::replay(case),
        "C17" => c17::replay(case),
        "C18" => c18::replay(case),
        "C12" => c12::replay(case),
        "C13" => c13::replay(case),
        "C14" => c14::replay(case),
        other => vec![format!("replay not available for {}", other)],
    }
}

/// generic replay of a library panic recorded by the sharded runner: every text entry point on the recorded input
fn replay_panic(case: &J) -> Vec<String> {
    let code = case.str_of("lang");
    let input = case.str_of("input");
    if !api::LANGS.contains(&code.as_str()) {
        return vec!["panic record without a language: re-run the check with the recorded seed".into()];
    }
    let res = std::panic::catch_unwind(|| {
        let a = api::concrete(&code);
        let _ = a.validate(&input);
        for t in [0.0, 10.0] {
            let _ = a.replace(&input, t);
            let _ = a.scan_text(&input, t);
        }
    });
    match res {
        Ok(()) => vec![],
        Err(_) => {
            let (loc, msg) = crate::core::take_last_panic().unwrap_or(("?".into(), "?".into()));
            vec![format!("the library panics at {} ({}) on input {:?}", loc, msg, input)]
        }
    }
}

/// entry point of child-process workers (C03 / C14); filled in by those monitors
pub fn worker_main(args: &[String]) -> i32 {
    crate::core::install_panic_hook();
    match args.first().map(|s| s.as_str()) {
        Some("c12") => c12::worker(&args[1..]),
        Some("c03") => c03::worker(&args[1..]),
        Some("c03-one") => c03::worker_one(&args[1..]),
        Some("c03-miri") => c03::worker_miri(&args[1..]),
        Some("c14-threads-light") => c14::worker_threads_light(&args[1..]),
        Some("c14-threads") => c14::worker_threads(&args[1..]),
        Some("c14-silence") => c14::worker_silence(&args[1..]),
        Some("c14-first") => c14::worker_first(&args[1..]),
        Some("fuzz-seeds") => fuzz_oracles::worker_seeds(&args[1..]),
        _ => {
            eprintln!("unknown worker {:?}", args.first());
            2
        }
    }
}

pub fn dropped_fillers_note(ls: &LangSet) -> Option<String> {
    let d: Vec<String> =
        ls.lex.iter().filter(|l| !l.dropped_fillers.is_empty()).map(|l| format!("{}: {}", l.code, l.dropped_fillers.join(","))).collect();
    if d.is_empty() {
        None
    } else {
        Some(format!("fillers dropped by the start-up self-check: {}", d.join("; ")))
    }
}

// ---------------------------------------------------------------------------------------------
// shared: sentence contexts and the round-trip judgement used by C01 / C04 / C05 / C16
// ---------------------------------------------------------------------------------------------

pub const N_CONTEXTS: usize = 6;
pub const CONTEXT_NAMES: [&str; N_CONTEXTS] =
    ["bare", "fillers-both-sides", "sentence-initial-capital", "punctuation-after", "bracket-or-quote-before", "conjunction-then-filler-after"];

/// Build (text, expected rewriting) for `phrase` whose digit form is `digits`.
pub fn in_context(cid: usize, phrase: &str, digits: &str, f: &[&str; 4], p: &str, q: &str, conj: &str) -> (String, String) {
    match cid {
        0 => (phrase.to_string(), digits.to_string()),
        1 => (format!("{} {} {} {} {}", f[0], f[1], phrase, f[2], f[3]), format!("{} {} {} {} {}", f[0], f[1], digits, f[2], f[3])),
        2 => (format!("{} {} {}", crate::spell::capitalize(phrase), f[0], f[1]), format!("{} {} {}", digits, f[0], f[1])),
        3 => (format!("{} {}{} {}", f[0], phrase, p, f[1]), format!("{} {}{} {}", f[0], digits, p, f[1])),
        4 => (format!("{} {}{} {}", f[0], q, phrase, f[1]), format!("{} {}{} {}", f[0], q, digits, f[1])),
        _ => (format!("{} {} {} {}", f[0], phrase, conj, f[1]), format!("{} {} {} {}", f[0], digits, conj, f[1])),
    }
}

/// The round-trip oracle: validation (bare context only), rewriting, and the single reported occurrence.
pub fn judge_roundtrip(
    api: &dyn Api,
    phrase: &str,
    text: &str,
    expected: &str,
    digits: &str,
    value: f64,
    want_ordinal: bool,
    check_validate: bool,
) -> Option<String> {
    if check_validate {
        let v = api.validate(phrase);
        if v.as_deref() != Ok(digits) {
            return Some(format!("text2digits({:?}) = {:?}, expected Ok({:?})", phrase, v, digits));
        }
    }
    let r = api.replace(text, 0.0);
    if r != expected {
        return Some(format!("replace_numbers_in_text({:?}, 0) = {:?}, expected {:?}", text, r, expected));
    }
    let (_toks, occs) = api.scan_text(text, 0.0);
    if occs.len() != 1 {
        return Some(format!("find_numbers on {:?} reports {} occurrences ({}), expected exactly one", text, occs.len(), api::show_occs(&occs)));
    }
    let o = &occs[0];
    if o.text != digits || o.is_ordinal != want_ordinal || o.value != value {
        return Some(format!(
            "occurrence for {:?} is {}, expected text {:?} value {} ordinal {}",
            text,
            o.show(),
            digits,
            value,
            want_ordinal
        ));
    }
    None
}

pub fn pick_fillers<'a>(rng: &mut crate::rng::Rng, lex: &'a Lexicon) -> [&'a str; 4] {
    let f = &lex.fillers;
    [rng.pick(f).as_str(), rng.pick(f).as_str(), rng.pick(f).as_str(), rng.pick(f).as_str()]
}

// ---------------------------------------------------------------------------------------------
// shared: the harness' own splice (copy tokens, replace each reported span by its text)
// ---------------------------------------------------------------------------------------------

pub fn splice(toks: &[api::PTok], occs: &[api::Occ]) -> Result<String, String> {
    let mut out = String::new();
    let mut i = 0usize;
    for o in occs {
        if o.start < i || o.end > toks.len() || o.start >= o.end {
            return Err(format!("span {}..{} cannot be spliced into {} tokens at position {}", o.start, o.end, toks.len(), i));
        }
        for t in &toks[i..o.start] {
            out.push_str(&t.text);
        }
        out.push_str(&o.text);
        i = o.end;
    }
    for t in &toks[i..] {
        out.push_str(&t.text);
    }
    Ok(out)
}

/// pick a text for the text-level monitors: hostile text, annotator-state text or a linking sentence
pub fn workload_text(rng: &mut crate::rng::Rng, lex: &Lexicon, max_words: usize) -> String {
    match rng.below(11) {
        10 => {
            // a complete spelled number of any size (the 65-byte German words included) inside a short sentence, in random case
            let n = crate::gen::random_number(rng, 12);
            let vs = crate::spell::cardinal_variants(lex.code, n);
            let vi = rng.usize(vs.len());
            let p = crate::gen::random_case(rng, &vs[vi].text);
            let f = pick_fillers(rng, lex);
            format!("{} {} {}", f[0], p, f[1])
        }
        0..=4 => crate::gen::hostile_text(rng, lex, max_words),
        5 | 6 => crate::gen::linking_sentence(rng, lex, max_words),
        7 => {
            let n = 1 + rng.usize(max_words);
            crate::gen::noise_text(&crate::gen::noise_stream(rng, lex, n))
        }
        _ => match lex.code {
            "fr" => crate::gen::annot_fr(rng, lex),
            "en" => {
                let u = rng.chance(1, 2);
                crate::gen::annot_en(rng, lex, u)
            }
            _ => crate::gen::linking_sentence(rng, lex, max_words),
        },
    }
}

pub const TEXT_THRESHOLDS: [f64; 5] = [0.0, 3.0, 10.0, f64::INFINITY, f64::NAN];
