//! Small deterministic PRNG (xoshiro256** seeded by splitmix64).  No external crates.

#[derive(Clone, Debug)]
pub struct Rng {
    s: [u64; 4],
}

fn splitmix(x: &mut u64) -> u64 {
    *x = x.wrapping_add(0x9E3779B97F4A7C15);
    let mut z = *x;
    z = (z ^ (z >> 30)).wrapping_mul(0xBF58476D1CE4E5B9);
    z = (z ^ (z >> 27)).wrapping_mul(0x94D049BB133111EB);
    z ^ (z >> 31)
}

pub fn hash_str(s: &str) -> u64 {
    // FNV-1a 64
    let mut h: u64 = 0xcbf29ce484222325;
    for b in s.as_bytes() {
        h ^= *b as u64;
        h = h.wrapping_mul(0x100000001b3);
    }
    h
}

pub fn hash_bytes(parts: &[&[u8]]) -> u64 {
    let mut h: u64 = 0xcbf29ce484222325;
    for p in parts {
        for b in *p {
            h ^= *b as u64;
            h = h.wrapping_mul(0x100000001b3);
        }
        h ^= 0xff;
        h = h.wrapping_mul(0x100000001b3);
    }
    h
}

impl Rng {
    pub fn new(seed: u64) -> Rng {
        let mut x = seed;
        let s = [
            splitmix(&mut x),
            splitmix(&mut x),
            splitmix(&mut x),
            splitmix(&mut x),
        ];
        Rng { s }
    }

    /// Derive a stream for (seed, label, worker).
    pub fn derive(seed: u64, label: &str, worker: u64) -> Rng {
        Rng::new(seed ^ hash_str(label).rotate_left(17) ^ worker.wrapping_mul(0xD1B54A32D192ED03))
    }

    pub fn next_u64(&mut self) -> u64 {
        let result = self.s[1].wrapping_mul(5).rotate_left(7).wrapping_mul(9);
        let t = self.s[1] << 17;
        self.s[2] ^= self.s[0];
        self.s[3] ^= self.s[1];
        self.s[1] ^= self.s[2];
        self.s[0] ^= self.s[3];
        self.s[2] ^= t;
        self.s[3] = self.s[3].rotate_left(45);
        result
    }

    /// Uniform in [0, n) (n > 0).
    pub fn below(&mut self, n: u64) -> u64 {
        debug_assert!(n > 0);
        // multiply-shift; bias negligible for our n
        ((self.next_u64() as u128 * n as u128) >> 64) as u64
    }

    pub fn usize(&mut self, n: usize) -> usize {
        self.below(n as u64) as usize
    }

    pub fn range(&mut self, lo: u64, hi_incl: u64) -> u64 {
        lo + self.below(hi_incl - lo + 1)
    }

    /// true with probability num/den
    pub fn chance(&mut self, num: u64, den: u64) -> bool {
        self.below(den) < num
    }

    pub fn pick<'a, T>(&mut self, xs: &'a [T]) -> &'a T {
        &xs[self.usize(xs.len())]
    }

    pub fn pick_str<'a>(&mut self, xs: &[&'a str]) -> &'a str {
        xs[self.usize(xs.len())]
    }

    pub fn f64(&mut self) -> f64 {
        (self.next_u64() >> 11) as f64 / (1u64 << 53) as f64
    }

    pub fn shuffle<T>(&mut self, xs: &mut [T]) {
        for i in (1..xs.len()).rev() {
            let j = self.usize(i + 1);
            xs.swap(i, j);
        }
    }

    /// pick an index according to integer weights
    pub fn weighted(&mut self, weights: &[u32]) -> usize {
        let total: u64 = weights.iter().map(|&w| w as u64).sum();
        let mut r = self.below(total);
        for (i, &w) in weights.iter().enumerate() {
            if r < w as u64 {
                return i;
            }
            r -= w as u64;
        }
        weights.len() - 1
    }
}
