//! German speller.  Glued below one million; `eins` only in final position; `eine Million`, `eine Milliarde`.

use super::{LangInfo, Spelled, SpelledOrd};

pub static INFO: LangInfo = LangInfo {
    code: "de",
    zero: "null",
    conj: "und",
    sep: "komma",
    mark: ",",
    ord_max: 1_000_000,
    digits: ["null", "eins", "zwei", "drei", "vier", "fünf", "sechs", "sieben", "acht", "neun"],
};

const UNITS: [&str; 13] = ["null", "ein", "zwei", "drei", "vier", "fünf", "sechs", "sieben", "acht", "neun", "zehn", "elf", "zwölf"];
const TEENS: [&str; 10] = [
    "zehn", "elf", "zwölf", "dreizehn", "vierzehn", "fünfzehn", "sechzehn", "siebzehn", "achtzehn", "neunzehn",
];
const TENS: [&str; 10] = ["", "", "zwanzig", "dreißig", "vierzig", "fünfzig", "sechzig", "siebzig", "achtzig", "neunzig"];

#[derive(Clone, Debug, Default)]
pub struct Style {
    pub split: bool,
    pub drop_ein: bool,
    pub dreissig: bool,
    /// partial splitting: a space after `tausend` and/or after `hundert` only (compound groups kept glued)
    pub split_after_tausend: bool,
    pub split_after_hundert: bool,
}

fn below_100(n: u64, is_final: bool, st: &Style, out: &mut Vec<String>) {
    if n == 1 {
        out.push(if is_final { "eins".into() } else { "ein".into() });
    } else if n < 13 {
        out.push(UNITS[n as usize].to_string());
    } else if n < 20 {
        out.push(TEENS[(n - 10) as usize].to_string());
    } else {
        let u = n % 10;
        if u > 0 {
            out.push(UNITS[u as usize].to_string());
            out.push("und".into());
        }
        let t = TENS[(n / 10) as usize];
        out.push(if st.dreissig && t == "dreißig" { "dreissig".into() } else { t.to_string() });
    }
}

fn below_1000(n: u64, is_final: bool, st: &Style, out: &mut Vec<String>) {
    let h = n / 100;
    let r = n % 100;
    if h > 0 {
        out.push(UNITS[h as usize].to_string());
        out.push("hundert".into());
    }
    if r > 0 {
        below_100(r, is_final, st, out);
    }
}

/// morphemes of x < 10^6
pub fn morphs_below_million(x: u64, is_final: bool, st: &Style) -> Vec<String> {
    let mut out = Vec::new();
    let th = x / 1000;
    let u = x % 1000;
    if th > 0 {
        below_1000(th, false, st, &mut out);
        out.push("tausend".into());
    }
    if u > 0 {
        below_1000(u, is_final, st, &mut out);
    }
    if st.drop_ein && out.len() >= 2 && out[0] == "ein" && (out[1] == "hundert" || out[1] == "tausend") {
        out.remove(0);
    }
    out
}

fn join(morphs: &[String], st: &Style) -> String {
    if st.split {
        morphs.join(" ")
    } else if st.split_after_tausend || st.split_after_hundert {
        // a space after `hundert` only in the last group: a glued word never spans `tausend` when the multiplier of
        // `tausend` itself was split (such a spelling is not a compound/split variant of anything)
        let last_tausend = morphs.iter().rposition(|m| m.starts_with("tausend"));
        let mut s = String::new();
        for (i, m) in morphs.iter().enumerate() {
            s.push_str(m);
            let last = i + 1 == morphs.len();
            let after_last_tausend = last_tausend.map(|t| i > t).unwrap_or(true);
            if !last && ((st.split_after_tausend && m == "tausend") || (st.split_after_hundert && m == "hundert" && after_last_tausend)) {
                s.push(' ');
            }
        }
        s
    } else {
        morphs.concat()
    }
}

pub fn in_domain(n: u64) -> bool {
    let m = n / 1_000_000 % 1000;
    let b = n / 1_000_000_000;
    !((m > 1 && m % 100 == 1) || (b > 1 && b % 100 == 1))
}

pub fn cardinal(n: u64, st: &Style) -> String {
    if n == 0 {
        return "null".into();
    }
    let mut parts: Vec<String> = Vec::new();
    let b = n / 1_000_000_000;
    let m = n / 1_000_000 % 1000;
    let r = n % 1_000_000;
    for (g, sing, plur) in [(b, "Milliarde", "Milliarden"), (m, "Million", "Millionen")] {
        if g == 1 {
            parts.push("eine".into());
            parts.push(sing.into());
        } else if g > 1 {
            let mut ms = Vec::new();
            below_1000(g, false, &Style { drop_ein: false, ..st.clone() }, &mut ms);
            parts.push(join(&ms, st));
            parts.push(plur.into());
        }
    }
    if r > 0 {
        let keep_ein = !parts.is_empty();
        let ms = morphs_below_million(r, true, &Style { drop_ein: st.drop_ein && !keep_ein, ..st.clone() });
        parts.push(join(&ms, st));
    }
    parts.join(" ")
}

pub fn variants(n: u64) -> Vec<Spelled> {
    let d = Style::default();
    vec![
        Spelled { text: cardinal(n, &d), variant: "primary" },
        Spelled { text: cardinal(n, &Style { split: true, ..d.clone() }), variant: "fully-split" },
        Spelled { text: cardinal(n, &Style { drop_ein: true, ..d.clone() }), variant: "ein-dropped" },
        Spelled { text: cardinal(n, &Style { dreissig: true, ..d.clone() }), variant: "dreissig" },
        Spelled { text: cardinal(n, &Style { split: true, drop_ein: true, ..d.clone() }), variant: "fully-split+ein-dropped" },
        Spelled { text: cardinal(n, &Style { split_after_tausend: true, ..d.clone() }), variant: "split-after-tausend" },
        Spelled { text: cardinal(n, &Style { split_after_hundert: true, ..d.clone() }), variant: "split-after-hundert" },
        Spelled { text: cardinal(n, &Style { split_after_tausend: true, split_after_hundert: true, ..d.clone() }), variant: "split-after-tausend-and-hundert" },
    ]
}

const ORD_SMALL: [&str; 20] = [
    "", "erste", "zweite", "dritte", "vierte", "fünfte", "sechste", "siebte", "achte", "neunte", "zehnte", "elfte", "zwölfte",
    "dreizehnte", "vierzehnte", "fünfzehnte", "sechzehnte", "siebzehnte", "achtzehnte", "neunzehnte",
];

/// nominative feminine/weak form (ending -e) of the ordinal
pub fn ordinal_base(n: u64, st: &Style) -> String {
    if n == 1_000_000 {
        return "millionste".into();
    }
    let r = n % 100;
    if (1..20).contains(&r) {
        let mut ms = morphs_below_million(n - r, false, st);
        ms.push(ORD_SMALL[r as usize].to_string());
        join(&ms, st)
    } else {
        let mut ms = morphs_below_million(n, false, st);
        let l = ms.len() - 1;
        ms[l].push_str("ste");
        join(&ms, st)
    }
}

pub fn ordinals(n: u64) -> Vec<SpelledOrd> {
    let mut v = Vec::new();
    for (st, name) in [
        (Style::default(), "primary"),
        (Style { split: true, ..Style::default() }, "fully-split"),
        (Style { drop_ein: true, ..Style::default() }, "ein-dropped"),
        (Style { split_after_tausend: true, split_after_hundert: true, ..Style::default() }, "split-after-tausend-and-hundert"),
    ] {
        let b = ordinal_base(n, &st);
        for (suf, infl) in [("", "-e"), ("r", "-er"), ("s", "-es"), ("n", "-en"), ("m", "-em")] {
            v.push(SpelledOrd { text: format!("{}{}", b, suf), marker: ".", inflection: infl, variant: name });
        }
    }
    v
}

pub fn segment(word: &str, out: &mut Vec<String>) {
    segment_impl(word, out, false)
}

/// like `segment`, but the conjunction morpheme is kept as "&"
pub fn segment_keep_conj(word: &str, out: &mut Vec<String>) {
    segment_impl(word, out, true)
}

fn segment_impl(word: &str, out: &mut Vec<String>, keep_conj: bool) {
    const INVENTORY: &[(&str, &str)] = &[
        ("milliarden", "milliarde"),
        ("milliarde", "milliarde"),
        ("millionen", "million"),
        ("million", "million"),
        ("dreizehn", "dreizehn"),
        ("vierzehn", "vierzehn"),
        ("fünfzehn", "fünfzehn"),
        ("sechzehn", "sechzehn"),
        ("siebzehn", "siebzehn"),
        ("achtzehn", "achtzehn"),
        ("neunzehn", "neunzehn"),
        ("dreissig", "dreißig"),
        ("zwanzig", "zwanzig"),
        ("dreißig", "dreißig"),
        ("vierzig", "vierzig"),
        ("fünfzig", "fünfzig"),
        ("sechzig", "sechzig"),
        ("siebzig", "siebzig"),
        ("achtzig", "achtzig"),
        ("neunzig", "neunzig"),
        ("hundert", "hundert"),
        ("tausend", "tausend"),
        ("sieben", "sieben"),
        ("zwölf", "zwölf"),
        ("sechs", "sechs"),
        ("eins", "eins"),
        ("eine", "ein"),
        ("zwei", "zwei"),
        ("drei", "drei"),
        ("vier", "vier"),
        ("fünf", "fünf"),
        ("acht", "acht"),
        ("neun", "neun"),
        ("zehn", "zehn"),
        ("null", "null"),
        ("und", ""),
        ("ein", "ein"),
        ("elf", "elf"),
    ];
    let mut w = word;
    'outer: while !w.is_empty() {
        for (form, canon) in INVENTORY.iter() {
            if w.starts_with(form) {
                if !canon.is_empty() {
                    out.push(canon.to_string());
                } else if keep_conj {
                    out.push("&".to_string());
                }
                w = &w[form.len()..];
                continue 'outer;
            }
        }
        out.push(w.to_string());
        break;
    }
}
