//! English speller (short scale).

use super::{LangInfo, Spelled, SpelledOrd};

pub static INFO: LangInfo = LangInfo {
    code: "en",
    zero: "zero",
    conj: "and",
    sep: "point",
    mark: ".",
    ord_max: 1_000_000,
    digits: ["zero", "one", "two", "three", "four", "five", "six", "seven", "eight", "nine"],
};

const ONES: [&str; 20] = [
    "zero", "one", "two", "three", "four", "five", "six", "seven", "eight", "nine", "ten", "eleven", "twelve", "thirteen",
    "fourteen", "fifteen", "sixteen", "seventeen", "eighteen", "nineteen",
];
const TENS: [&str; 10] = ["", "", "twenty", "thirty", "forty", "fifty", "sixty", "seventy", "eighty", "ninety"];

#[derive(Clone, Debug)]
pub struct Style {
    pub hyphen: bool,
    pub and: bool,
    pub drop_one: bool,
    pub plural_scale: bool,
}

impl Default for Style {
    fn default() -> Self {
        Style { hyphen: true, and: false, drop_one: false, plural_scale: false }
    }
}

fn below_100(n: u64, st: &Style, out: &mut Vec<String>) {
    if n < 20 {
        out.push(ONES[n as usize].to_string());
    } else {
        let t = TENS[(n / 10) as usize];
        let u = n % 10;
        if u == 0 {
            out.push(t.to_string());
        } else if st.hyphen {
            out.push(format!("{}-{}", t, ONES[u as usize]));
        } else {
            out.push(t.to_string());
            out.push(ONES[u as usize].to_string());
        }
    }
}

fn scale(word: &str, mult: u64, st: &Style) -> String {
    if st.plural_scale && mult > 1 {
        format!("{}s", word)
    } else {
        word.to_string()
    }
}

fn below_1000(n: u64, st: &Style, out: &mut Vec<String>) {
    let h = n / 100;
    let r = n % 100;
    if h > 0 {
        out.push(ONES[h as usize].to_string());
        out.push(scale("hundred", h, st));
        if r > 0 && st.and {
            out.push("and".to_string());
        }
    }
    if r > 0 {
        below_100(r, st, out);
    }
}

pub fn words(n: u64, st: &Style) -> Vec<String> {
    if n == 0 {
        return vec!["zero".to_string()];
    }
    let mut out = Vec::new();
    let groups = [(1_000_000_000u64, "billion"), (1_000_000, "million"), (1_000, "thousand")];
    let mut rest = n;
    for (div, name) in groups {
        let g = rest / div;
        rest %= div;
        if g > 0 {
            below_1000(g, st, &mut out);
            out.push(scale(name, g, st));
        }
    }
    if rest > 0 {
        if st.and && rest < 100 && n >= 1000 {
            out.push("and".to_string());
        }
        below_1000(rest, st, &mut out);
    }
    if st.drop_one && out.len() >= 2 && out[0] == "one" && (out[1].starts_with("hundred") || out[1].starts_with("thousand")) {
        out.remove(0);
    }
    out
}

pub fn cardinal(n: u64, st: &Style) -> String {
    words(n, st).join(" ")
}

pub fn variants(n: u64) -> Vec<Spelled> {
    let d = Style::default();
    vec![
        Spelled { text: cardinal(n, &d), variant: "primary" },
        Spelled { text: cardinal(n, &Style { hyphen: false, ..d.clone() }), variant: "space-for-hyphen" },
        Spelled { text: cardinal(n, &Style { and: true, ..d.clone() }), variant: "with-and" },
        Spelled { text: cardinal(n, &Style { and: true, hyphen: false, ..d.clone() }), variant: "with-and+space" },
        Spelled { text: cardinal(n, &Style { drop_one: true, ..d.clone() }), variant: "leading-one-dropped" },
        Spelled { text: cardinal(n, &Style { plural_scale: true, ..d.clone() }), variant: "plural-scale-words" },
    ]
}

fn ord_word(w: &str) -> String {
    match w {
        "one" => "first".into(),
        "two" => "second".into(),
        "three" => "third".into(),
        "five" => "fifth".into(),
        "eight" => "eighth".into(),
        "nine" => "ninth".into(),
        "twelve" => "twelfth".into(),
        _ => {
            if let Some(stem) = w.strip_suffix('y') {
                format!("{}ieth", stem)
            } else {
                format!("{}th", w)
            }
        }
    }
}

fn ordinal_with(n: u64, st: &Style, variant: &'static str) -> SpelledOrd {
    let mut ws = words(n, st);
    let last = ws.pop().unwrap();
    let (head, tail) = match last.rfind('-') {
        Some(i) => (last[..=i].to_string(), last[i + 1..].to_string()),
        None => (String::new(), last.clone()),
    };
    let ow = ord_word(&tail);
    let marker = match ow.as_str() {
        "first" => "st",
        "second" => "nd",
        "third" => "rd",
        _ => "th",
    };
    ws.push(format!("{}{}", head, ow));
    SpelledOrd { text: ws.join(" "), marker, inflection: "-", variant }
}

pub fn ordinals(n: u64) -> Vec<SpelledOrd> {
    let d = Style::default();
    let mut v = vec![
        ordinal_with(n, &d, "primary"),
        ordinal_with(n, &Style { hyphen: false, ..d.clone() }, "space-for-hyphen"),
        ordinal_with(n, &Style { and: true, ..d.clone() }, "with-and"),
    ];
    // plural (`two thirds`, `three twenty-fifths`): the marker gets an s.  Ranks ending in `second` are not claimed in the
    // plural: `seconds` is the time unit, which the library leaves alone on purpose (its tests pin `Twenty seconds`).
    let sg = v[0].clone();
    let pl_marker = match sg.marker {
        "st" => Some("sts"),
        "rd" => Some("rds"),
        "th" => Some("ths"),
        _ => None,
    };
    if let Some(m) = pl_marker {
        v.push(SpelledOrd { text: format!("{}s", sg.text), marker: m, inflection: "pl", variant: "primary" });
    }
    v
}

pub fn canon(w: &str) -> String {
    // plural scale words
    match w {
        "hundreds" => "hundred".into(),
        "thousands" => "thousand".into(),
        "millions" => "million".into(),
        "billions" => "billion".into(),
        _ => w.to_string(),
    }
}
