//! Spanish speller.

use super::{LangInfo, Spelled, SpelledOrd};

pub static INFO: LangInfo = LangInfo {
    code: "es",
    zero: "cero",
    conj: "y",
    sep: "coma",
    mark: ",",
    ord_max: 1999,
    digits: ["cero", "uno", "dos", "tres", "cuatro", "cinco", "seis", "siete", "ocho", "nueve"],
};

const BELOW_30: [&str; 30] = [
    "cero", "uno", "dos", "tres", "cuatro", "cinco", "seis", "siete", "ocho", "nueve", "diez", "once", "doce", "trece", "catorce",
    "quince", "dieciséis", "diecisiete", "dieciocho", "diecinueve", "veinte", "veintiuno", "veintidós", "veintitrés",
    "veinticuatro", "veinticinco", "veintiséis", "veintisiete", "veintiocho", "veintinueve",
];
const TENS: [&str; 10] = ["", "", "", "treinta", "cuarenta", "cincuenta", "sesenta", "setenta", "ochenta", "noventa"];
const HUNDREDS: [&str; 10] = [
    "", "ciento", "doscientos", "trescientos", "cuatrocientos", "quinientos", "seiscientos", "setecientos", "ochocientos", "novecientos",
];

#[derive(Clone, Debug, Default)]
pub struct Style {
    pub no_y: bool,
    pub feminine: bool,
    pub millon_plain: bool,
}

/// `apocope`: the group stands before mil / millón / millones
fn below_100(n: u64, st: &Style, apocope: bool, fem: bool, out: &mut Vec<String>) {
    if n < 30 {
        let w = match (n, apocope, fem) {
            (1, true, _) => "un",
            (21, true, _) => "veintiún",
            (1, false, true) => "una",
            (21, false, true) => "veintiuna",
            _ => BELOW_30[n as usize],
        };
        out.push(w.to_string());
    } else {
        out.push(TENS[(n / 10) as usize].to_string());
        let u = n % 10;
        if u > 0 {
            if !st.no_y {
                out.push("y".into());
            }
            let w = match (u, apocope, fem) {
                (1, true, _) => "un",
                (1, false, true) => "una",
                _ => BELOW_30[u as usize],
            };
            out.push(w.to_string());
        }
    }
}

fn below_1000(n: u64, st: &Style, apocope: bool, fem: bool, out: &mut Vec<String>) {
    let h = n / 100;
    let r = n % 100;
    if n == 100 {
        out.push("cien".into());
        return;
    }
    if h > 0 {
        let w = HUNDREDS[h as usize];
        if fem && h > 1 {
            out.push(format!("{}as", &w[..w.len() - 2]));
        } else {
            out.push(w.to_string());
        }
    }
    if r > 0 {
        below_100(r, st, apocope, fem, out);
    }
}

fn below_million(x: u64, st: &Style, apocope: bool, fem: bool, out: &mut Vec<String>) {
    let th = x / 1000;
    let u = x % 1000;
    if th == 1 {
        out.push("mil".into());
    } else if th > 1 {
        below_1000(th, st, true, false, out);
        out.push("mil".into());
    }
    if u > 0 {
        below_1000(u, st, apocope, fem, out);
    }
}

pub fn cardinal(n: u64, st: &Style) -> String {
    if n == 0 {
        return "cero".into();
    }
    let mut out = Vec::new();
    let m = n / 1_000_000;
    let r = n % 1_000_000;
    if m == 1 {
        out.push("un".to_string());
        out.push(if st.millon_plain { "millon".into() } else { "millón".into() });
    } else if m > 1 {
        below_million(m, st, true, false, &mut out);
        out.push("millones".into());
    }
    if r > 0 {
        below_million(r, st, false, st.feminine, &mut out);
    }
    out.join(" ")
}

pub fn variants(n: u64) -> Vec<Spelled> {
    let d = Style::default();
    vec![
        Spelled { text: cardinal(n, &d), variant: "primary" },
        Spelled { text: cardinal(n, &Style { no_y: true, ..d.clone() }), variant: "y-omitted" },
        Spelled { text: cardinal(n, &Style { feminine: true, ..d.clone() }), variant: "feminine" },
        Spelled { text: cardinal(n, &Style { millon_plain: true, ..d.clone() }), variant: "millon-unaccented" },
    ]
}

const ORD_UNITS: [&str; 10] = ["", "primero", "segundo", "tercero", "cuarto", "quinto", "sexto", "séptimo", "octavo", "noveno"];
const ORD_TEENS: [&str; 10] = [
    "décimo", "undécimo", "duodécimo", "decimotercero", "decimocuarto", "decimoquinto", "decimosexto", "decimoséptimo", "decimoctavo",
    "decimonoveno",
];
const ORD_TENS: [&str; 10] = [
    "", "", "vigésimo", "trigésimo", "cuadragésimo", "quincuagésimo", "sexagésimo", "septuagésimo", "octogésimo", "nonagésimo",
];
const ORD_HUNDREDS: [&str; 10] = [
    "", "centésimo", "ducentésimo", "tricentésimo", "cuadringentésimo", "quingentésimo", "sexcentésimo", "septingentésimo",
    "octingentésimo", "noningentésimo",
];

pub fn ordinal_words(n: u64) -> Vec<&'static str> {
    let mut ws = Vec::new();
    if n >= 1000 {
        ws.push("milésimo");
    }
    let h = n % 1000 / 100;
    if h > 0 {
        ws.push(ORD_HUNDREDS[h as usize]);
    }
    let r = n % 100;
    if (10..20).contains(&r) {
        ws.push(ORD_TEENS[(r - 10) as usize]);
    } else {
        if r >= 20 {
            ws.push(ORD_TENS[(r / 10) as usize]);
        }
        if r % 10 > 0 {
            ws.push(ORD_UNITS[(r % 10) as usize]);
        }
    }
    ws
}

fn inflect(w: &str, suffix: &str) -> String {
    // every ordinal word ends in -o
    format!("{}{}", &w[..w.len() - 1], suffix)
}

pub fn ordinals(n: u64) -> Vec<SpelledOrd> {
    let ws = ordinal_words(n);
    let mut v = Vec::new();
    for (suf, marker, infl) in [("o", "º", "m.sg"), ("a", "ª", "f.sg"), ("os", "ᵒˢ", "m.pl"), ("as", "ᵃˢ", "f.pl")] {
        let text = ws.iter().map(|w| inflect(w, suf)).collect::<Vec<_>>().join(" ");
        v.push(SpelledOrd { text, marker, inflection: infl, variant: "primary" });
    }
    v
}

pub fn canon(w: &str) -> String {
    match w {
        "un" | "una" => "uno".into(),
        "veintiún" | "veintiuna" => "veintiuno".into(),
        "cien" => "ciento".into(),
        "millon" | "millones" => "millón".into(),
        _ => {
            if w.ends_with("ientas") {
                format!("{}os", &w[..w.len() - 2])
            } else {
                w.to_string()
            }
        }
    }
}
