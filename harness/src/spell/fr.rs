//! French speller (traditional orthography as primary form).

use super::{LangInfo, Spelled, SpelledOrd};

pub static INFO: LangInfo = LangInfo {
    code: "fr",
    zero: "zéro",
    conj: "et",
    sep: "virgule",
    mark: ",",
    ord_max: 1_000_000,
    digits: ["zéro", "un", "deux", "trois", "quatre", "cinq", "six", "sept", "huit", "neuf"],
};

const ONES: [&str; 17] = [
    "zéro", "un", "deux", "trois", "quatre", "cinq", "six", "sept", "huit", "neuf", "dix", "onze", "douze", "treize", "quatorze",
    "quinze", "seize",
];

#[derive(Clone, Copy, Debug, PartialEq)]
pub enum Region {
    France,
    /// septante / quatre-vingts / nonante
    Belgium,
    /// septante / huitante / nonante
    Swiss,
    /// septante / octante / nonante
    Octante,
}

#[derive(Clone, Debug)]
pub struct Style {
    pub region: Region,
}

impl Default for Style {
    fn default() -> Self {
        Style { region: Region::France }
    }
}

fn below_20(n: u64) -> String {
    if n <= 16 {
        ONES[n as usize].to_string()
    } else {
        format!("dix-{}", ONES[(n - 10) as usize])
    }
}

/// `final_s`: whether a terminal "quatre-vingts" keeps its s (it does unless followed by another numeral word)
fn below_100(n: u64, st: &Style, final_s: bool) -> String {
    if n < 20 {
        return below_20(n);
    }
    let t = n / 10;
    let u = n % 10;
    let simple = |tens: &str, u: u64| -> String {
        if u == 0 {
            tens.to_string()
        } else if u == 1 {
            format!("{} et un", tens)
        } else {
            format!("{}-{}", tens, ONES[u as usize])
        }
    };
    match t {
        2 => simple("vingt", u),
        3 => simple("trente", u),
        4 => simple("quarante", u),
        5 => simple("cinquante", u),
        6 => simple("soixante", u),
        7 => {
            if st.region != Region::France {
                simple("septante", u)
            } else if u == 1 {
                "soixante et onze".to_string()
            } else {
                format!("soixante-{}", below_20(10 + u))
            }
        }
        8 => match st.region {
            Region::Swiss => simple("huitante", u),
            Region::Octante => simple("octante", u),
            _ => {
                if u == 0 {
                    if final_s {
                        "quatre-vingts".to_string()
                    } else {
                        "quatre-vingt".to_string()
                    }
                } else {
                    format!("quatre-vingt-{}", ONES[u as usize])
                }
            }
        },
        9 => {
            if st.region != Region::France {
                simple("nonante", u)
            } else {
                format!("quatre-vingt-{}", below_20(10 + u))
            }
        }
        _ => unreachable!(),
    }
}

fn below_1000(n: u64, st: &Style, final_s: bool) -> String {
    let h = n / 100;
    let r = n % 100;
    let mut parts: Vec<String> = Vec::new();
    if h == 1 {
        parts.push("cent".into());
    } else if h > 1 {
        parts.push(ONES[h as usize].to_string());
        parts.push(if r == 0 && final_s { "cents".into() } else { "cent".into() });
    }
    if r > 0 {
        parts.push(below_100(r, st, final_s));
    }
    parts.join(" ")
}

pub fn cardinal(n: u64, st: &Style) -> String {
    if n == 0 {
        return "zéro".into();
    }
    let mut parts: Vec<String> = Vec::new();
    let b = n / 1_000_000_000;
    let m = n / 1_000_000 % 1000;
    let t = n / 1000 % 1000;
    let u = n % 1000;
    if b > 0 {
        parts.push(below_1000(b, st, true));
        parts.push(if b > 1 { "milliards".into() } else { "milliard".into() });
    }
    if m > 0 {
        parts.push(below_1000(m, st, true));
        parts.push(if m > 1 { "millions".into() } else { "million".into() });
    }
    if t > 0 {
        if t > 1 {
            parts.push(below_1000(t, st, false));
        }
        parts.push("mille".into());
    }
    if u > 0 {
        parts.push(below_1000(u, st, true));
    }
    parts.join(" ")
}

pub fn variants(n: u64) -> Vec<Spelled> {
    let d = Style::default();
    let primary = cardinal(n, &d);
    let mut v = vec![
        Spelled { text: primary.clone(), variant: "primary" },
        Spelled { text: primary.replace('-', " "), variant: "no-hyphens" },
    ];
    if n < 1_000_000 {
        v.push(Spelled { text: primary.replace(' ', "-"), variant: "1990-all-hyphens" });
    }
    for (r, name) in [(Region::Belgium, "septante-nonante"), (Region::Swiss, "huitante"), (Region::Octante, "octante")] {
        let s = cardinal(n, &Style { region: r });
        v.push(Spelled { text: s.replace('-', " "), variant: name });
        v.push(Spelled { text: s, variant: name });
    }
    if (1001..2000).contains(&n) {
        v.push(Spelled { text: primary.replacen("mille", "mil", 1), variant: "mil" });
    }
    v
}

fn ord_word(w: &str) -> String {
    let w = w.strip_suffix('s').filter(|b| matches!(*b, "cent" | "vingt" | "million" | "milliard")).unwrap_or(w);
    match w {
        "un" => "unième".into(),
        "cinq" => "cinquième".into(),
        "neuf" => "neuvième".into(),
        _ => {
            if let Some(stem) = w.strip_suffix('e') {
                format!("{}ième", stem)
            } else {
                format!("{}ième", w)
            }
        }
    }
}

fn ordinal_base(n: u64, hyphens: bool) -> String {
    ordinal_base_styled(n, hyphens, &Style::default())
}

fn ordinal_base_styled(n: u64, hyphens: bool, st: &Style) -> String {
    let c = cardinal(n, st);
    let c = if hyphens { c } else { c.replace('-', " ") };
    // split off the last word (after the last space or hyphen)
    let idx = c.rfind(|ch| ch == ' ' || ch == '-').map(|i| i + 1).unwrap_or(0);
    format!("{}{}", &c[..idx], ord_word(&c[idx..]))
}

pub fn ordinals(n: u64) -> Vec<SpelledOrd> {
    let mut v = Vec::new();
    if n == 1 {
        for (t, m, i) in [("premier", "er", "m.sg"), ("première", "ère", "f.sg"), ("premiers", "ers", "m.pl"), ("premières", "ères", "f.pl")] {
            v.push(SpelledOrd { text: t.into(), marker: m, inflection: i, variant: "primary" });
        }
        return v;
    }
    for (hy, name) in [(true, "primary"), (false, "no-hyphens")] {
        let b = ordinal_base(n, hy);
        v.push(SpelledOrd { text: b.clone(), marker: "ème", inflection: "sg", variant: name });
        v.push(SpelledOrd { text: format!("{}s", b), marker: "èmes", inflection: "pl", variant: name });
    }
    // regional tens (septante / huitante / octante / nonante), as for the cardinals
    let primary = ordinal_base(n, true);
    for (r, name) in [(Region::Belgium, "septante-nonante"), (Region::Swiss, "huitante"), (Region::Octante, "octante")] {
        let b = ordinal_base_styled(n, true, &Style { region: r });
        if b != primary && !v.iter().any(|o| o.text == b) {
            v.push(SpelledOrd { text: b.clone(), marker: "ème", inflection: "sg", variant: name });
            v.push(SpelledOrd { text: format!("{}s", b), marker: "èmes", inflection: "pl", variant: name });
            v.push(SpelledOrd { text: b.replace('-', " "), marker: "ème", inflection: "sg", variant: name });
        }
    }
    v
}

pub fn canon(w: &str) -> String {
    match w {
        "cents" => "cent".into(),
        "vingts" => "vingt".into(),
        "millions" => "million".into(),
        "milliards" => "milliard".into(),
        "mil" => "mille".into(),
        _ => w.to_string(),
    }
}
