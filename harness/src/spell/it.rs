//! Italian speller.  Numbers below one million are written as one word; elision of the tens' final vowel
//! before `uno`/`otto` is mandatory; `cento` + `ottanta…` is elided in the primary form (`centottanta`).

use super::{LangInfo, Spelled, SpelledOrd};

pub static INFO: LangInfo = LangInfo {
    code: "it",
    zero: "zero",
    conj: "e",
    sep: "virgola",
    mark: ",",
    ord_max: 1_000_000,
    digits: ["zero", "uno", "due", "tre", "quattro", "cinque", "sei", "sette", "otto", "nove"],
};

const BELOW_20: [&str; 20] = [
    "zero", "uno", "due", "tre", "quattro", "cinque", "sei", "sette", "otto", "nove", "dieci", "undici", "dodici", "tredici",
    "quattordici", "quindici", "sedici", "diciassette", "diciotto", "diciannove",
];
const TENS: [&str; 10] = ["", "", "venti", "trenta", "quaranta", "cinquanta", "sessanta", "settanta", "ottanta", "novanta"];

#[derive(Clone, Debug)]
pub struct Style {
    /// elide cento + ottanta -> centottanta
    pub elide_hundred: bool,
    /// also elide before `otto` alone (`centotto`, `duecentotto`)
    pub elide_otto: bool,
    /// space between the thousands part and the rest
    pub split_groups: bool,
    /// space between tens and unit where no elision applies (implies nothing else)
    pub split_units: bool,
    /// optional conjunction `e` (between the thousands part and the rest, or cento and a unit)
    pub with_e: bool,
    /// `ventuno milioni` instead of `ventun milioni`
    pub full_uno_before_scale: bool,
}

impl Default for Style {
    fn default() -> Self {
        Style { elide_hundred: true, elide_otto: false, split_groups: false, split_units: false, with_e: false, full_uno_before_scale: false }
    }
}

fn below_100(n: u64) -> String {
    if n < 20 {
        return BELOW_20[n as usize].to_string();
    }
    let t = TENS[(n / 10) as usize];
    let u = n % 10;
    match u {
        0 => t.to_string(),
        1 | 8 => format!("{}{}", &t[..t.len() - 1], BELOW_20[u as usize]),
        _ => format!("{}{}", t, BELOW_20[u as usize]),
    }
}

/// words making up a number below 1000 (one word unless a split style is active)
fn below_1000(n: u64, st: &Style) -> Vec<String> {
    let h = n / 100;
    let r = n % 100;
    let mut head = String::new();
    if h > 1 {
        head.push_str(BELOW_20[h as usize]);
    }
    if h >= 1 {
        head.push_str("cento");
    }
    if r == 0 {
        return vec![head];
    }
    let mut words: Vec<String> = Vec::new();
    let unit_split = st.split_units && r > 20 && r % 10 != 0 && r % 10 != 1 && r % 10 != 8;
    let tail: Vec<String> = if unit_split {
        vec![TENS[(r / 10) as usize].to_string(), BELOW_20[(r % 10) as usize].to_string()]
    } else {
        vec![below_100(r)]
    };
    if h >= 1 {
        if st.with_e && r < 10 {
            words.push(head);
            words.push("e".into());
            words.extend(tail);
        } else if (st.elide_hundred && (80..90).contains(&r)) || (st.elide_otto && r == 8) {
            let mut w = head[..head.len() - 1].to_string();
            w.push_str(&tail[0]);
            words.push(w);
            words.extend(tail.into_iter().skip(1));
        } else {
            let mut w = head;
            w.push_str(&tail[0]);
            words.push(w);
            words.extend(tail.into_iter().skip(1));
        }
    } else {
        words.extend(tail);
    }
    words
}

fn glue_last(words: &mut Vec<String>, suffix: &str) {
    let l = words.len() - 1;
    words[l].push_str(suffix);
}

/// words of a number below 10^6
fn below_million(x: u64, st: &Style) -> Vec<String> {
    let th = x / 1000;
    let u = x % 1000;
    let mut words: Vec<String> = Vec::new();
    if th == 1 {
        words.push("mille".into());
    } else if th > 1 {
        let mut w = below_1000(th, &Style { with_e: false, split_units: false, ..st.clone() });
        glue_last(&mut w, "mila");
        words = w;
    }
    if u > 0 {
        let uw = below_1000(u, st);
        if th > 0 && st.with_e {
            words.push("e".into());
            words.extend(uw);
        } else if th > 0 && !st.split_groups {
            let l = words.len() - 1;
            words[l].push_str(&uw[0]);
            words.extend(uw.into_iter().skip(1));
        } else {
            words.extend(uw);
        }
    }
    words
}

fn accent_final_tre(words: &mut Vec<String>) {
    if let Some(last) = words.last_mut() {
        if last.ends_with("tre") && last != "tre" {
            last.truncate(last.len() - 1);
            last.push('é');
        }
    }
}

pub fn cardinal(n: u64, st: &Style) -> String {
    if n == 0 {
        return "zero".into();
    }
    let mut out: Vec<String> = Vec::new();
    let b = n / 1_000_000_000;
    let m = n / 1_000_000 % 1000;
    let r = n % 1_000_000;
    for (g, sing, plur) in [(b, "miliardo", "miliardi"), (m, "milione", "milioni")] {
        if g == 1 {
            out.push("un".into());
            out.push(sing.into());
        } else if g > 1 {
            let mut w = below_1000(g, &Style { with_e: false, split_units: false, ..st.clone() });
            accent_final_tre(&mut w);
            if !st.full_uno_before_scale {
                let l = w.len() - 1;
                if w[l].ends_with("uno") && w[l] != "uno" {
                    let nl = w[l].len() - 1;
                    w[l].truncate(nl);
                }
            }
            out.extend(w);
            out.push(plur.into());
        }
    }
    if r > 0 {
        let mut w = below_million(r, st);
        accent_final_tre(&mut w);
        out.extend(w);
    }
    out.join(" ")
}

pub fn variants(n: u64) -> Vec<Spelled> {
    let d = Style::default();
    vec![
        Spelled { text: cardinal(n, &d), variant: "primary" },
        Spelled { text: cardinal(n, &Style { split_groups: true, ..d.clone() }), variant: "split-at-thousands" },
        Spelled { text: cardinal(n, &Style { split_groups: true, split_units: true, ..d.clone() }), variant: "split-tens-units" },
        Spelled { text: cardinal(n, &Style { elide_hundred: false, ..d.clone() }), variant: "cento-ottanta-unelided" },
        Spelled { text: cardinal(n, &Style { with_e: true, ..d.clone() }), variant: "optional-e" },
        Spelled { text: cardinal(n, &Style { elide_otto: true, ..d.clone() }), variant: "centotto-elided" },
        Spelled { text: cardinal(n, &Style { full_uno_before_scale: true, ..d.clone() }), variant: "ventuno-milioni" },
    ]
}

const ORD_SMALL: [&str; 11] = ["", "primo", "secondo", "terzo", "quarto", "quinto", "sesto", "settimo", "ottavo", "nono", "decimo"];

/// masculine singular ordinal of n (1 <= n <= 10^6)
pub fn ordinal_base(n: u64) -> String {
    if n <= 10 {
        return ORD_SMALL[n as usize].to_string();
    }
    if n == 1_000_000 {
        return "milionesimo".into();
    }
    let c = cardinal(n, &Style::default());
    if let Some(stem) = c.strip_suffix("tré") {
        return format!("{}treesimo", stem);
    }
    if c.ends_with("sei") {
        return format!("{}esimo", c);
    }
    if let Some(stem) = c.strip_suffix("mila") {
        return format!("{}millesimo", stem);
    }
    if c == "mille" {
        return "millesimo".into();
    }
    // drop the final vowel
    let mut chars: Vec<char> = c.chars().collect();
    chars.pop();
    let stem: String = chars.into_iter().collect();
    format!("{}esimo", stem)
}

pub fn ordinals(n: u64) -> Vec<SpelledOrd> {
    let b = ordinal_base(n);
    let stem = &b[..b.len() - 1];
    let mut v = Vec::new();
    for (suf, marker, infl) in [("o", "º", "m.sg"), ("a", "ª", "f.sg"), ("i", "º", "m.pl"), ("e", "ª", "f.pl")] {
        v.push(SpelledOrd { text: format!("{}{}", stem, suf), marker, inflection: infl, variant: "primary" });
    }
    v
}

/// Segment an Italian number word into canonical morphemes (elisions undone).
pub fn segment(word: &str, out: &mut Vec<String>) {
    let mut w: &str = word;
    // longest-match against the morpheme inventory, with elided forms mapped to their full form
    const INVENTORY: &[(&str, &str)] = &[
        ("diciassette", "diciassette"),
        ("diciannove", "diciannove"),
        ("quattordici", "quattordici"),
        ("cinquanta", "cinquanta"),
        ("cinquant", "cinquanta"),
        ("quaranta", "quaranta"),
        ("quarant", "quaranta"),
        ("sessanta", "sessanta"),
        ("sessant", "sessanta"),
        ("settanta", "settanta"),
        ("settant", "settanta"),
        ("quindici", "quindici"),
        ("miliardo", "miliardo"),
        ("miliardi", "miliardo"),
        ("diciotto", "diciotto"),
        ("quattro", "quattro"),
        ("ottanta", "ottanta"),
        ("ottant", "ottanta"),
        ("novanta", "novanta"),
        ("novant", "novanta"),
        ("tredici", "tredici"),
        ("milione", "milione"),
        ("milioni", "milione"),
        ("cinque", "cinque"),
        ("trenta", "trenta"),
        ("undici", "undici"),
        ("dodici", "dodici"),
        ("sedici", "sedici"),
        ("cento", "cento"),
        ("mille", "mille"),
        ("venti", "venti"),
        ("trent", "trenta"),
        ("dieci", "dieci"),
        ("sette", "sette"),
        ("mila", "mille"),
        ("vent", "venti"),
        ("otto", "otto"),
        ("nove", "nove"),
        ("zero", "zero"),
        ("uno", "uno"),
        ("due", "due"),
        ("tre", "tre"),
        ("tré", "tre"),
        ("sei", "sei"),
        ("un", "uno"),
        // elided cento before ottanta: "cent" + "ottanta"
        ("cent", "cento"),
    ];
    'outer: while !w.is_empty() {
        if w.starts_with("centott") {
            // elided cento + ott…
            out.push("cento".to_string());
            w = &w[4..];
            continue;
        }
        for (form, canon) in INVENTORY.iter() {
            if !form.is_empty() && w.starts_with(form) {
                out.push(canon.to_string());
                w = &w[form.len()..];
                continue 'outer;
            }
        }
        // unknown residue: keep as is
        out.push(w.to_string());
        break;
    }
}
