//! Independent spellers: number -> words, written from the grammar rules of each language (DESIGN.md §4),
//! never from the library's tables.  They are the reference models of C01/C04/C05/C08/C16.

pub mod de;
pub mod en;
pub mod es;
pub mod fr;
pub mod it;
pub mod nl;
pub mod pt;

/// One spelled form together with the name of the orthographic variant that produced it.
#[derive(Clone, Debug)]
pub struct Spelled {
    pub text: String,
    pub variant: &'static str,
}

/// A spelled ordinal: text, expected marker, inflection name.
#[derive(Clone, Debug)]
pub struct SpelledOrd {
    pub text: String,
    pub marker: &'static str,
    pub inflection: &'static str,
    pub variant: &'static str,
}

pub struct LangInfo {
    pub code: &'static str,
    pub zero: &'static str,
    pub conj: &'static str,
    pub sep: &'static str,
    pub mark: &'static str,
    pub ord_max: u64,
    /// digit words 0..9 as dictated one by one
    pub digits: [&'static str; 10],
}

pub fn info(code: &str) -> &'static LangInfo {
    match code {
        "en" => &en::INFO,
        "fr" => &fr::INFO,
        "es" => &es::INFO,
        "pt" => &pt::INFO,
        "it" => &it::INFO,
        "de" => &de::INFO,
        "nl" => &nl::INFO,
        _ => panic!("unknown language {}", code),
    }
}

/// Primary (dictionary) spelling of n, n < 10^12.
pub fn cardinal(code: &str, n: u64) -> String {
    match code {
        "en" => en::cardinal(n, &en::Style::default()),
        "fr" => fr::cardinal(n, &fr::Style::default()),
        "es" => es::cardinal(n, &es::Style::default()),
        "pt" => pt::cardinal(n, &pt::Style::default()),
        "it" => it::cardinal(n, &it::Style::default()),
        "de" => de::cardinal(n, &de::Style::default()),
        "nl" => nl::cardinal(n, &nl::Style::default()),
        _ => panic!("unknown language {}", code),
    }
}

/// All claimed variants of n (the first one is the primary spelling).  Variants that coincide with an earlier
/// form for this n are dropped.
pub fn cardinal_variants(code: &str, n: u64) -> Vec<Spelled> {
    let mut v: Vec<Spelled> = match code {
        "en" => en::variants(n),
        "fr" => fr::variants(n),
        "es" => es::variants(n),
        "pt" => pt::variants(n),
        "it" => it::variants(n),
        "de" => de::variants(n),
        "nl" => nl::variants(n),
        _ => panic!("unknown language {}", code),
    };
    let mut seen: Vec<String> = Vec::new();
    v.retain(|s| {
        if seen.contains(&s.text) {
            false
        } else {
            seen.push(s.text.clone());
            true
        }
    });
    v
}

/// Is n inside the domain this speller claims for `code`?  (German multipliers ending in 1 before
/// Million/Milliarde have no settled spelling, see DESIGN.md §4.)
pub fn cardinal_in_domain(code: &str, n: u64) -> bool {
    if n >= 1_000_000_000_000 {
        return false;
    }
    match code {
        "de" => de::in_domain(n),
        _ => true,
    }
}

/// All inflections (and claimed variants) of the ordinal of rank n.
pub fn ordinals(code: &str, n: u64) -> Vec<SpelledOrd> {
    if n == 0 || n > info(code).ord_max {
        return vec![];
    }
    let mut v = match code {
        "en" => en::ordinals(n),
        "fr" => fr::ordinals(n),
        "es" => es::ordinals(n),
        "pt" => pt::ordinals(n),
        "it" => it::ordinals(n),
        "de" => de::ordinals(n),
        "nl" => nl::ordinals(n),
        _ => panic!("unknown language {}", code),
    };
    let mut seen: Vec<String> = Vec::new();
    v.retain(|s| {
        if seen.contains(&s.text) {
            false
        } else {
            seen.push(s.text.clone());
            true
        }
    });
    v
}

/// Canonical morpheme sequence of n (conjunctions dropped, plural marks dropped, elisions undone), all variants.
/// Used by C08 to decide whether a fused reading of two numbers is "the number whose spelling consists of
/// exactly those words".
pub fn morpheme_variants(code: &str, n: u64) -> Vec<Vec<String>> {
    let mut out: Vec<Vec<String>> = Vec::new();
    for s in cardinal_variants(code, n) {
        let m = morphemes_of_text(code, &s.text);
        if !out.contains(&m) {
            out.push(m);
        }
    }
    out
}

/// How many times the conjunction occurs in a spelled phrase (as a word of its own, or glued inside a German / Dutch
/// compound).
pub fn conj_occurrences(code: &str, text: &str) -> usize {
    let lower = text.to_lowercase();
    let conj = info(code).conj;
    let mut n = 0;
    for w in lower.split(|c: char| c.is_whitespace() || c == '-') {
        if w.is_empty() {
            continue;
        }
        if w == conj {
            n += 1;
            continue;
        }
        let mut out = Vec::new();
        match code {
            "de" => de::segment_keep_conj(w, &mut out),
            "nl" => nl::segment_keep_conj(w, &mut out),
            _ => {}
        }
        n += out.iter().filter(|m| m.as_str() == "&").count();
    }
    n
}

/// Segment a spelled cardinal into canonical morphemes.
pub fn morphemes_of_text(code: &str, text: &str) -> Vec<String> {
    let lower = text.to_lowercase();
    let conj = info(code).conj;
    let mut out = Vec::new();
    for w in lower.split(|c: char| c.is_whitespace() || c == '-') {
        if w.is_empty() || w == conj {
            continue;
        }
        match code {
            "it" => it::segment(w, &mut out),
            "de" => de::segment(w, &mut out),
            "nl" => nl::segment(w, &mut out),
            "fr" => out.push(fr::canon(w)),
            "en" => out.push(en::canon(w)),
            "es" => out.push(es::canon(w)),
            "pt" => out.push(pt::canon(w)),
            _ => out.push(w.to_string()),
        }
    }
    out
}

/// Spell the fractional digit string `d` (ASCII digits, len >= 1) the way the language dictates fractions.
pub fn fraction(code: &str, d: &str) -> Option<String> {
    let inf = info(code);
    match code {
        "en" | "de" => {
            // digit by digit
            Some(d.bytes().map(|b| inf.digits[(b - b'0') as usize]).collect::<Vec<_>>().join(" "))
        }
        _ => {
            // k zeros + one cardinal
            let k = d.bytes().take_while(|b| *b == b'0').count();
            let rest = &d[k..];
            let mut words: Vec<String> = (0..k).map(|_| inf.zero.to_string()).collect();
            if !rest.is_empty() {
                let v: u64 = rest.parse().ok()?;
                words.push(cardinal(code, v));
            }
            Some(words.join(" "))
        }
    }
}

/// Dictate a digit string digit by digit.
pub fn dictate(code: &str, d: &str) -> String {
    let inf = info(code);
    d.bytes().map(|b| inf.digits[(b - b'0') as usize]).collect::<Vec<_>>().join(" ")
}

pub fn capitalize(s: &str) -> String {
    let mut cs = s.chars();
    match cs.next() {
        Some(c) => c.to_uppercase().collect::<String>() + cs.as_str(),
        None => String::new(),
    }
}
