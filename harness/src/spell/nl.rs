//! Dutch speller.  Glued up to `duizend`, a space after it; `ën` after twee/drie, `en` otherwise.

use super::{LangInfo, Spelled, SpelledOrd};

pub static INFO: LangInfo = LangInfo {
    code: "nl",
    zero: "nul",
    conj: "en",
    sep: "komma",
    mark: ",",
    ord_max: 1_000_000,
    digits: ["nul", "een", "twee", "drie", "vier", "vijf", "zes", "zeven", "acht", "negen"],
};

const BELOW_20: [&str; 20] = [
    "nul", "een", "twee", "drie", "vier", "vijf", "zes", "zeven", "acht", "negen", "tien", "elf", "twaalf", "dertien", "veertien",
    "vijftien", "zestien", "zeventien", "achttien", "negentien",
];
const TENS: [&str; 10] = ["", "", "twintig", "dertig", "veertig", "vijftig", "zestig", "zeventig", "tachtig", "negentig"];

#[derive(Clone, Debug, Default)]
pub struct Style {
    /// space between the multiplier and duizend, and after honderd
    pub split_scale: bool,
    /// additionally a space between the multiplier and honderd
    pub split_hundred: bool,
    /// `één` for the standalone word `een`
    pub accent_een: bool,
}

fn below_100(n: u64) -> String {
    if n < 20 {
        return BELOW_20[n as usize].to_string();
    }
    let u = n % 10;
    let t = TENS[(n / 10) as usize];
    if u == 0 {
        t.to_string()
    } else {
        let link = if u == 2 || u == 3 { "ën" } else { "en" };
        format!("{}{}{}", BELOW_20[u as usize], link, t)
    }
}

fn below_1000(n: u64, st: &Style) -> String {
    let h = n / 100;
    let r = n % 100;
    let mut s = String::new();
    if h > 1 {
        s.push_str(BELOW_20[h as usize]);
        if st.split_hundred {
            s.push(' ');
        }
    }
    if h >= 1 {
        s.push_str("honderd");
        if r > 0 && (st.split_scale || st.split_hundred) {
            s.push(' ');
        }
    }
    if r > 0 {
        s.push_str(&below_100(r));
    }
    s
}

fn below_million(x: u64, st: &Style) -> String {
    let th = x / 1000;
    let u = x % 1000;
    let mut parts: Vec<String> = Vec::new();
    if th == 1 {
        parts.push("duizend".into());
    } else if th > 1 {
        if st.split_scale || st.split_hundred {
            parts.push(below_1000(th, st));
            parts.push("duizend".into());
        } else {
            parts.push(format!("{}duizend", below_1000(th, st)));
        }
    }
    if u > 0 {
        parts.push(below_1000(u, st));
    }
    parts.join(" ")
}

pub fn cardinal(n: u64, st: &Style) -> String {
    if n == 0 {
        return "nul".into();
    }
    let mut parts: Vec<String> = Vec::new();
    let b = n / 1_000_000_000;
    let m = n / 1_000_000 % 1000;
    let r = n % 1_000_000;
    for (g, name) in [(b, "miljard"), (m, "miljoen")] {
        if g > 0 {
            parts.push(below_1000(g, st));
            parts.push(name.into());
        }
    }
    if r > 0 {
        parts.push(below_million(r, st));
    }
    let s = parts.join(" ");
    if st.accent_een {
        s.split(' ').map(|w| if w == "een" { "één" } else { w }).collect::<Vec<_>>().join(" ")
    } else {
        s
    }
}

pub fn variants(n: u64) -> Vec<Spelled> {
    let d = Style::default();
    vec![
        Spelled { text: cardinal(n, &d), variant: "primary" },
        Spelled { text: cardinal(n, &Style { split_scale: true, ..d.clone() }), variant: "split-at-duizend-and-after-honderd" },
        Spelled { text: cardinal(n, &Style { split_hundred: true, ..d.clone() }), variant: "split-before-honderd" },
        Spelled { text: cardinal(n, &Style { accent_een: true, ..d.clone() }), variant: "één" },
    ]
}

const ORD_SMALL: [&str; 20] = [
    "", "eerste", "tweede", "derde", "vierde", "vijfde", "zesde", "zevende", "achtste", "negende", "tiende", "elfde", "twaalfde",
    "dertiende", "veertiende", "vijftiende", "zestiende", "zeventiende", "achttiende", "negentiende",
];

pub fn ordinal_base(n: u64) -> String {
    if n == 1_000_000 {
        return "miljoenste".into();
    }
    let st = Style::default();
    let r = n % 100;
    if (1..20).contains(&r) {
        let head = n - r;
        if head == 0 {
            ORD_SMALL[r as usize].to_string()
        } else {
            let c = cardinal(head, &st);
            if head % 1000 == 0 {
                format!("{} {}", c, ORD_SMALL[r as usize])
            } else {
                format!("{}{}", c, ORD_SMALL[r as usize])
            }
        }
    } else {
        format!("{}ste", cardinal(n, &st))
    }
}

pub fn ordinals(n: u64) -> Vec<SpelledOrd> {
    let mut v = vec![SpelledOrd { text: ordinal_base(n), marker: "e", inflection: "-", variant: "primary" }];
    // split before honderd / duizend as for cardinals: the ordinal ending sits on the last word
    let r = n % 100;
    if n > 100 && n < 1_000_000 {
        let st = Style { split_scale: true, ..Style::default() };
        let text = if (1..20).contains(&r) {
            format!("{} {}", cardinal(n - r, &st), ORD_SMALL[r as usize])
        } else {
            format!("{}ste", cardinal(n, &st))
        };
        v.push(SpelledOrd { text, marker: "e", inflection: "-", variant: "split-at-duizend-and-after-honderd" });
    }
    v
}

pub fn segment(word: &str, out: &mut Vec<String>) {
    segment_impl(word, out, false)
}

/// like `segment`, but the conjunction morpheme is kept as "&"
pub fn segment_keep_conj(word: &str, out: &mut Vec<String>) {
    segment_impl(word, out, true)
}

fn segment_impl(word: &str, out: &mut Vec<String>, keep_conj: bool) {
    const INVENTORY: &[(&str, &str)] = &[
        ("negentien", "negentien"),
        ("zeventien", "zeventien"),
        ("achttien", "achttien"),
        ("vijftien", "vijftien"),
        ("veertien", "veertien"),
        ("negentig", "negentig"),
        ("zeventig", "zeventig"),
        ("dertien", "dertien"),
        ("zestien", "zestien"),
        ("twintig", "twintig"),
        ("veertig", "veertig"),
        ("vijftig", "vijftig"),
        ("tachtig", "tachtig"),
        ("honderd", "honderd"),
        ("duizend", "duizend"),
        ("miljoen", "miljoen"),
        ("miljard", "miljard"),
        ("dertig", "dertig"),
        ("zestig", "zestig"),
        ("twaalf", "twaalf"),
        ("zeven", "zeven"),
        ("negen", "negen"),
        ("twee", "twee"),
        ("drie", "drie"),
        ("vier", "vier"),
        ("vijf", "vijf"),
        ("acht", "acht"),
        ("tien", "tien"),
        ("één", "een"),
        ("een", "een"),
        ("zes", "zes"),
        ("elf", "elf"),
        ("nul", "nul"),
        ("ën", ""),
        ("en", ""),
    ];
    let mut w = word;
    'outer: while !w.is_empty() {
        for (form, canon) in INVENTORY.iter() {
            if w.starts_with(form) {
                if !canon.is_empty() {
                    out.push(canon.to_string());
                } else if keep_conj {
                    out.push("&".to_string());
                }
                w = &w[form.len()..];
                continue 'outer;
            }
        }
        out.push(w.to_string());
        break;
    }
}
