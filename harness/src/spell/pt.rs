//! Portuguese speller (European forms primary, Brazilian variants).

use super::{LangInfo, Spelled, SpelledOrd};

pub static INFO: LangInfo = LangInfo {
    code: "pt",
    zero: "zero",
    conj: "e",
    sep: "vírgula",
    mark: ",",
    ord_max: 1999,
    digits: ["zero", "um", "dois", "três", "quatro", "cinco", "seis", "sete", "oito", "nove"],
};

const BELOW_20_EU: [&str; 20] = [
    "zero", "um", "dois", "três", "quatro", "cinco", "seis", "sete", "oito", "nove", "dez", "onze", "doze", "treze", "catorze",
    "quinze", "dezasseis", "dezassete", "dezoito", "dezanove",
];
const BELOW_20_BR: [&str; 20] = [
    "zero", "um", "dois", "três", "quatro", "cinco", "seis", "sete", "oito", "nove", "dez", "onze", "doze", "treze", "quatorze",
    "quinze", "dezesseis", "dezessete", "dezoito", "dezenove",
];
const TENS: [&str; 10] = ["", "", "vinte", "trinta", "quarenta", "cinquenta", "sessenta", "setenta", "oitenta", "noventa"];
const HUNDREDS: [&str; 10] = [
    "", "cento", "duzentos", "trezentos", "quatrocentos", "quinhentos", "seiscentos", "setecentos", "oitocentos", "novecentos",
];

#[derive(Clone, Debug, Default)]
pub struct Style {
    pub brazil_teens: bool,
    /// short scale: bilhão for 10^9
    pub brazil_scale: bool,
    pub feminine: bool,
    /// use "catorze" (shared) instead of "quatorze" with brazil_teens
    pub catorze: bool,
}

fn below_100(n: u64, st: &Style, fem: bool, out: &mut Vec<String>) {
    let unit = |u: u64| -> String {
        match (u, fem) {
            (1, true) => "uma".into(),
            (2, true) => "duas".into(),
            _ => {
                if st.brazil_teens {
                    if u == 14 && st.catorze {
                        "catorze".into()
                    } else {
                        BELOW_20_BR[u as usize].into()
                    }
                } else {
                    BELOW_20_EU[u as usize].into()
                }
            }
        }
    };
    if n < 20 {
        out.push(unit(n));
    } else {
        out.push(TENS[(n / 10) as usize].to_string());
        if n % 10 > 0 {
            out.push("e".into());
            out.push(unit(n % 10));
        }
    }
}

fn below_1000(n: u64, st: &Style, fem: bool, out: &mut Vec<String>) {
    if n == 100 {
        out.push("cem".into());
        return;
    }
    let h = n / 100;
    let r = n % 100;
    if h > 0 {
        let w = HUNDREDS[h as usize];
        if fem && h > 1 {
            out.push(format!("{}as", &w[..w.len() - 2]));
        } else {
            out.push(w.to_string());
        }
        if r > 0 {
            out.push("e".into());
        }
    }
    if r > 0 {
        below_100(r, st, fem, out);
    }
}

fn wants_e(triple: u64) -> bool {
    triple < 100 || triple % 100 == 0
}

fn below_million(x: u64, st: &Style, fem: bool, out: &mut Vec<String>) {
    let th = x / 1000;
    let u = x % 1000;
    if th == 1 {
        out.push("mil".into());
    } else if th > 1 {
        below_1000(th, st, false, out);
        out.push("mil".into());
    }
    if u > 0 {
        if th > 0 && wants_e(u) {
            out.push("e".into());
        }
        below_1000(u, st, fem, out);
    }
}

/// does the part r (< 10^6) that follows a higher class start with "e"?
fn tail_wants_e(r: u64) -> bool {
    if r == 0 {
        false
    } else if r < 1000 {
        wants_e(r)
    } else if r % 1000 == 0 {
        wants_e(r / 1000)
    } else {
        false
    }
}

pub fn cardinal(n: u64, st: &Style) -> String {
    if n == 0 {
        return "zero".into();
    }
    let mut out: Vec<String> = Vec::new();
    let r = n % 1_000_000;
    if st.brazil_scale {
        let b = n / 1_000_000_000;
        let m = n / 1_000_000 % 1000;
        if b > 0 {
            below_1000(b, st, false, &mut out);
            out.push(if b == 1 { "bilhão".into() } else { "bilhões".into() });
        }
        if m > 0 {
            if b > 0 && r == 0 && wants_e(m) {
                out.push("e".into());
            }
            below_1000(m, st, false, &mut out);
            out.push(if m == 1 { "milhão".into() } else { "milhões".into() });
        }
    } else {
        let m = n / 1_000_000;
        if m == 1 {
            out.push("um".into());
            out.push("milhão".into());
        } else if m > 1 {
            below_million(m, st, false, &mut out);
            out.push("milhões".into());
        }
    }
    if r > 0 {
        if !out.is_empty() && tail_wants_e(r) {
            out.push("e".into());
        }
        below_million(r, st, st.feminine, &mut out);
    }
    out.join(" ")
}

pub fn variants(n: u64) -> Vec<Spelled> {
    let d = Style::default();
    vec![
        Spelled { text: cardinal(n, &d), variant: "primary" },
        Spelled { text: cardinal(n, &Style { brazil_teens: true, ..d.clone() }), variant: "brazilian-teens" },
        Spelled { text: cardinal(n, &Style { brazil_teens: true, catorze: true, ..d.clone() }), variant: "brazilian-teens-catorze" },
        Spelled { text: cardinal(n, &Style { brazil_scale: true, ..d.clone() }), variant: "bilhao-short-scale" },
        Spelled { text: cardinal(n, &Style { feminine: true, ..d.clone() }), variant: "feminine" },
        // `bilião / biliões` as the other orthography of the short-scale word (the library documents both spellings as
        // the same 10^9 word; in the long-scale reading the word only names numbers outside [0, 10^12))
        Spelled { text: cardinal(n, &Style { brazil_scale: true, ..d.clone() }).replace("bilhão", "bilião").replace("bilhões", "biliões"), variant: "biliao-short-scale" },
    ]
}

const ORD_UNITS: [&str; 10] = ["", "primeiro", "segundo", "terceiro", "quarto", "quinto", "sexto", "sétimo", "oitavo", "nono"];
const ORD_TENS: [&str; 10] = [
    "", "décimo", "vigésimo", "trigésimo", "quadragésimo", "quinquagésimo", "sexagésimo", "septuagésimo", "octogésimo", "nonagésimo",
];
const ORD_HUNDREDS: [&str; 10] = [
    "", "centésimo", "ducentésimo", "trecentésimo", "quadringentésimo", "quingentésimo", "sexcentésimo", "septingentésimo",
    "octingentésimo", "nongentésimo",
];

pub fn ordinal_words(n: u64) -> Vec<&'static str> {
    let mut ws = Vec::new();
    if n >= 1000 {
        ws.push("milésimo");
    }
    let h = n % 1000 / 100;
    if h > 0 {
        ws.push(ORD_HUNDREDS[h as usize]);
    }
    let t = n % 100 / 10;
    if t > 0 {
        ws.push(ORD_TENS[t as usize]);
    }
    let u = n % 10;
    if u > 0 {
        ws.push(ORD_UNITS[u as usize]);
    }
    ws
}

pub fn ordinals(n: u64) -> Vec<SpelledOrd> {
    let ws = ordinal_words(n);
    let mut v = Vec::new();
    for (suf, marker, infl) in [("o", "º", "m.sg"), ("a", "ª", "f.sg"), ("os", "ᵒˢ", "m.pl"), ("as", "ᵃˢ", "f.pl")] {
        let text = ws.iter().map(|w| format!("{}{}", &w[..w.len() - 1], suf)).collect::<Vec<_>>().join(" ");
        v.push(SpelledOrd { text, marker, inflection: infl, variant: "primary" });
    }
    v
}

pub fn canon(w: &str) -> String {
    match w {
        "uma" => "um".into(),
        "duas" => "dois".into(),
        "cem" => "cento".into(),
        "milhões" => "milhão".into(),
        "bilhões" => "bilhão".into(),
        "quatorze" => "catorze".into(),
        "dezesseis" => "dezasseis".into(),
        "dezessete" => "dezassete".into(),
        "dezenove" => "dezanove".into(),
        _ => {
            if w.ends_with("entas") {
                format!("{}os", &w[..w.len() - 2])
            } else {
                w.to_string()
            }
        }
    }
}
