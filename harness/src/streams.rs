//! Token-stream workloads (IdTok) for the scanner-level monitors C06 / C07 / C09 / C15.

use crate::api::IdTok;
use crate::gen::{self, WClass};
use crate::lexicon::{Lexicon, WS};
use crate::rng::Rng;
use crate::spell;

#[derive(Clone, Copy, Debug)]
pub struct StreamOpts {
    pub max_words: usize,
    /// interleave whitespace tokens like the text tokenizer does
    pub ws_tokens: bool,
    pub random_case: bool,
    /// probability (per mille) of a separation hint / a nan hint on a word token
    pub sep_permille: u64,
    pub nan_permille: u64,
    /// per mille of word slots filled with a complete spelled number instead of a vocabulary word
    pub spelled_permille: u64,
}

impl StreamOpts {
    pub fn plain(max_words: usize) -> StreamOpts {
        StreamOpts { max_words, ws_tokens: false, random_case: false, sep_permille: 0, nan_permille: 0, spelled_permille: 120 }
    }
    pub fn hinted(max_words: usize) -> StreamOpts {
        StreamOpts { max_words, ws_tokens: true, random_case: true, sep_permille: 60, nan_permille: 40, spelled_permille: 120 }
    }
}

pub fn is_ws(t: &str) -> bool {
    !t.is_empty() && t.chars().all(char::is_whitespace)
}

/// is this token skipped by the scanner (whitespace-only or a lone hyphen)?
pub fn is_skipped(t: &str) -> bool {
    t == "-" || t.chars().all(char::is_whitespace)
}

pub fn gen_stream(rng: &mut Rng, lex: &Lexicon, o: &StreamOpts) -> Vec<IdTok> {
    let n = 1 + rng.usize(o.max_words);
    let noise = gen::noise_stream(rng, lex, n);
    let mut out: Vec<IdTok> = Vec::with_capacity(n * 2 + 4);
    let mut id = 0u64;
    let mut push = |out: &mut Vec<IdTok>, text: &str| {
        out.push(IdTok::new(id, text));
        id += 1;
    };
    for (i, t) in noise.iter().enumerate() {
        if o.ws_tokens && i > 0 {
            if rng.chance(1, 40) {
                push(&mut out, "-");
            } else {
                push(&mut out, rng.pick_str(&WS));
            }
        }
        let mut words: Vec<String> = Vec::new();
        if t.class == WClass::Number && rng.below(1000) < o.spelled_permille {
            // a complete spelled number (may be several words)
            let nd = if rng.chance(1, 3) { 9 } else { 3 };
            let v = gen::random_number(rng, nd);
            let vs = spell::cardinal_variants(lex.code, v);
            let s = &vs[rng.usize(vs.len())].text;
            words.extend(s.split(' ').map(|w| w.to_string()));
        } else {
            words.push(t.text.clone());
        }
        for (wi, w) in words.iter().enumerate() {
            if wi > 0 && o.ws_tokens {
                push(&mut out, " ");
            }
            let text = if o.random_case && t.class != WClass::Punct { gen::random_case(rng, w) } else { w.clone() };
            push(&mut out, &text);
            let l = out.len() - 1;
            if t.class != WClass::Punct {
                if rng.below(1000) < o.sep_permille {
                    out[l].sep = true;
                }
                if rng.below(1000) < o.nan_permille {
                    out[l].nan = true;
                }
            } else if rng.below(1000) < o.nan_permille {
                // "not a number part" on a punctuation token: it must keep behaving as that punctuation
                out[l].nan = true;
            }
        }
    }
    out
}

pub fn show_stream(toks: &[IdTok]) -> String {
    toks.iter().map(|t| t.show()).collect::<Vec<_>>().join(" ")
}

pub fn stream_json(toks: &[IdTok]) -> crate::json::J {
    crate::json::J::Arr(
        toks.iter()
            .map(|t| {
                crate::jobj! {"text" => t.text.as_str(), "sep" => t.sep, "nan" => t.nan}
            })
            .collect(),
    )
}

pub fn stream_from_json(j: &crate::json::J) -> Vec<IdTok> {
    let mut out = Vec::new();
    if let Some(a) = j.as_arr() {
        for (i, t) in a.iter().enumerate() {
            let mut tok = IdTok::new(i as u64, &t.str_of("text"));
            tok.sep = t.get("sep").and_then(|x| x.as_bool()).unwrap_or(false);
            tok.nan = t.get("nan").and_then(|x| x.as_bool()).unwrap_or(false);
            out.push(tok);
        }
    }
    out
}

pub fn stream_hash(code: &str, toks: &[IdTok]) -> u64 {
    let mut h: u64 = crate::rng::hash_str(code);
    for t in toks {
        h = h.rotate_left(5) ^ crate::rng::hash_str(&t.text);
        h = h.wrapping_mul(0x100000001b3) ^ ((t.sep as u64) << 1 | t.nan as u64);
    }
    h
}

/// A small per-language alphabet for the bounded-exhaustive stream workloads: one word of every class the grammar and
/// the lone-number policy distinguish (zero, units, a tens word, the hundred / thousand / million words, an ordinal, the
/// conjunction, the decimal-separator word, a linking word, a filler, two punctuation tokens).
pub fn small_alphabet(lex: &Lexicon) -> Vec<String> {
    let code = lex.code;
    let info = spell::info(code);
    let last = |s: String| s.split(|c: char| c == ' ' || c == '-').last().unwrap_or("").to_string();
    let mut v: Vec<String> = vec![
        info.zero.to_string(),
        info.digits[1].to_string(),
        info.digits[2].to_string(),
        info.digits[9].to_string(),
        spell::cardinal(code, 12),
        spell::cardinal(code, 20),
        last(spell::cardinal(code, 100)),
        last(spell::cardinal(code, 1000)),
        last(spell::cardinal(code, 2_000_000)),
        spell::ordinals(code, 3).first().map(|o| o.text.clone()).unwrap_or_default(),
        info.conj.to_string(),
        info.sep.to_string(),
        lex.linking.iter().find(|w| w.as_str() != info.conj).cloned().unwrap_or_default(),
        lex.fillers.first().cloned().unwrap_or_default(),
        ",".to_string(),
        ".".to_string(),
    ];
    // the words the ambiguity passes react to
    match code {
        "fr" => v.push("le".to_string()),
        "en" => v.push("o".to_string()),
        _ => {}
    }
    v.retain(|w| !w.is_empty());
    let mut seen = std::collections::BTreeSet::new();
    v.retain(|w| seen.insert(w.clone()));
    v
}

/// the `idx`-th stream of exactly `depth` tokens over `alpha` (mixed-radix decoding), no whitespace tokens, no hints
pub fn nth_small_stream(alpha: &[String], depth: u32, idx: u64) -> Vec<IdTok> {
    let k = alpha.len() as u64;
    let mut x = idx;
    (0..depth)
        .map(|i| {
            let t = IdTok::new(i as u64, &alpha[(x % k) as usize]);
            x /= k;
            t
        })
        .collect()
}

/// Drive `f` over EVERY stream of 1..=max_depth tokens over the small alphabet of every language, sharded over workers;
/// returns (streams visited, whether the enumeration was cut by `stop`).
pub fn for_each_small_stream(
    lexicons: &[Lexicon],
    max_depth: u32,
    w: usize,
    nw: usize,
    stop: &dyn Fn() -> bool,
    f: &mut dyn FnMut(&'static str, &[IdTok]),
) -> (u64, bool) {
    let mut visited = 0u64;
    for lex in lexicons {
        let code = lex.code;
        let alpha = small_alphabet(lex);
        let k = alpha.len() as u64;
        for depth in 1..=max_depth {
            let total = k.pow(depth);
            let mut idx = w as u64;
            while idx < total {
                if visited % 2048 == 0 && stop() {
                    return (visited, true);
                }
                let toks = nth_small_stream(&alpha, depth, idx);
                f(code, &toks);
                visited += 1;
                idx += nw as u64;
            }
        }
    }
    (visited, false)
}
