//! C14 build probe: the interpreters can be sent to and shared between threads.
//! A compile error E0277 here means one of them is no longer `Send + Sync`.
fn need<T: Send + Sync>() {}

fn main() {
    need::<text2num::Language>();
    need::<text2num::lang::English>();
    need::<text2num::lang::French>();
    need::<text2num::lang::Spanish>();
    need::<text2num::lang::Portuguese>();
    need::<text2num::lang::Italian>();
    need::<text2num::lang::German>();
    need::<text2num::lang::Dutch>();
    // and really do it once
    let l = std::sync::Arc::new(text2num::Language::german());
    let l2 = l.clone();
    let h = std::thread::spawn(move || text2num::text2digits("einundzwanzig", &*l2).is_ok());
    assert!(text2num::text2digits("zwei", &*l).is_ok());
    assert!(h.join().unwrap());
    println!("sendsync-ok");
}
