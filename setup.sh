#!/bin/bash
# MANIFEST.setup_cmd: offline release build of the harness (path dependency on /repo with feature verif-hooks).
set -eu
HERE="$(cd "$(dirname "$0")" && pwd)"
export CARGO_NET_OFFLINE=true
cp -f /repo/Cargo.lock "$HERE/harness/Cargo.lock"
cd "$HERE/harness"
cargo build --release --offline
echo "setup ok"
