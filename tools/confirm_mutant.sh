#!/bin/bash
# Confirm a seeded change independently, in a scratch worktree of /repo (outside /repo and /verif):
#   1. with the patch: the crate builds and the repository's own tests all pass (136 unit + 7 doc tests)
#   2. with the patch: the demonstration fails;  3. without the patch: the demonstration passes.
# usage: tools/confirm_mutant.sh <dir containing patch.diff and demo.rs>
set -u
D="$(cd "$1" && pwd)"
WT=/tmp/wt-confirm-$$
export CARGO_NET_OFFLINE=true
git -C /repo worktree add --detach "$WT" HEAD -q || exit 2
cp /repo/Cargo.lock "$WT/" 2>/dev/null
cd "$WT"
res=0
if ! git apply "$D/patch.diff"; then echo "CONFIRM: patch does not apply"; res=2; fi
if [ $res = 0 ]; then
  out=$(cargo test --offline 2>&1)
  if echo "$out" | grep -q "test result: ok. 136 passed" && echo "$out" | grep -q "test result: ok. 7 passed"; then echo "CONFIRM: tests pass with the change (136 + 7)"; else echo "CONFIRM: TESTS FAIL with the change"; echo "$out" | grep -E "test result|FAILED|error" | head; res=3; fi
fi
if [ $res = 0 ]; then
  mkdir -p tests && cp "$D/demo.rs" tests/demo.rs
  if timeout 600 cargo test --offline --test demo >/tmp/confirm-demo-$$.log 2>&1; then echo "CONFIRM: demo PASSES with the change (bad)"; res=4; else echo "CONFIRM: demo fails with the change (good)"; fi
  git checkout -q -- src
  if timeout 600 cargo test --offline --test demo >/tmp/confirm-demo2-$$.log 2>&1; then echo "CONFIRM: demo passes without the change (good)"; else echo "CONFIRM: demo FAILS without the change (bad)"; tail -5 /tmp/confirm-demo2-$$.log; res=5; fi
fi
cd /
git -C /repo worktree remove --force "$WT"
rm -f /tmp/confirm-demo-$$.log /tmp/confirm-demo2-$$.log
[ $res = 0 ] && echo "CONFIRMED" || echo "NOT CONFIRMED ($res)"
exit $res
