#!/usr/bin/env python3
"""Generate /verif/MANIFEST.json from the table below (run: python3 tools/gen_manifest.py)."""
import json, os, subprocess

HERE = os.path.dirname(os.path.dirname(os.path.abspath(__file__)))

def hook_commits():
    try:
        out = subprocess.run(["git", "-C", "/repo", "log", "--format=%H %s"], capture_output=True, text=True).stdout
        return [l.split()[0] for l in out.splitlines() if "verif hook" in l]
    except Exception:
        return []

# property -> (built?, technique, level text, level note, design ref)
CHECKS = {
 "C01": (True, "reference-model runtime monitor (independent spellers) over compositional + random workloads",
         "Exploration: every n in 0..9999, every 3-digit group value in every group position, boundary shapes and digit-biased random n < 10^12 are spelled by independent per-language spellers (primary spelling + the variant table of DESIGN.md section 4, in six sentence contexts) and the real text2digits / replace_numbers_in_text / find_numbers results are compared with decimal(n). Held on the executions produced, not a proof over 10^12 integers.",
         "Trusted: the spellers in harness/src/spell (written from grammar rules, not from the library tables); filler words self-checked against the running library; known finding K1 (de 'eine Million') attributed only through the counterfactual token repair eine->ein.",
         "5 C01"),
 "C04": (True, "reference-model runtime monitor (independent ordinal spellers); thorough tier enumerates every rank of the stated range",
         "Exploration: every rank 1..10000 (quick) or every rank of the stated range 1..10^6, es/pt 1..1999 (thorough) in every gender/number inflection and hyphen/space or glued/split variant is spelled by independent ordinal spellers; validate, rewrite (six sentence contexts) and the reported occurrence (text, value, ordinal flag) are compared with decimal(n)+marker.",
         "Trusted: the ordinal conventions of DESIGN.md section 4 (systematic Italian -esimo forms, Spanish decimotercero.., no apocopated primer/tercer). Known findings K2 (es bare 'segundo(s)') and K3 (it bare 'secondi') are matched on the exact phrase only.",
         "5 C04"),
 "C05": (True, "reference-model runtime monitor (integer speller x fraction speller), conditioned on the integer part's own round-trip",
         "Exploration: integers from the compositional sampler below 10^9 x every 1- and 2-digit fraction string, every leading/inner/trailing-zero pattern of length 3..6 and random ones, in six sentence contexts; rewrite and the single occurrence (text n<mark>d, value, not ordinal) compared with the expected decimal; both negative clauses (separator with no number before it / nothing usable after it) checked.",
         "Trusted: fraction dictation conventions of DESIGN.md section 4; cases whose integer part fails C01 are skipped and counted.",
         "5 C05"),
 "C08": (True, "exhaustive pair sweep + dictation sweep observed through the real rewrite API, judged against a morpheme-sequence index built from the spellers",
         "Exploration, exhaustive over the stated pair domain: every (a,b) in [0,99]^2 x {space, conjunction} x 7 languages; allowed outcomes are both numbers in order, the zero-prefixed form, or the digits of the one number whose morpheme sequence equals morphemes(a)+morphemes(b). Dictation: every digit string up to length 4 (quick) / 6 (thorough) plus random ones up to length 8 against the grouping rule of the statement.",
         "Trusted: morpheme segmentation of the spellers; the conjunction is ignored when comparing morpheme sequences; texts flagged by the ambiguity annotator are skipped and counted.",
         "5 C08"),
 "C16": (True, "reference-model runtime monitor (zero words + speller), conditioned on C01 for the same n",
         "Exploration: k in 1..6 zero words before the spelling of n (compositional sampler within [1,10^9) plus random n) in six contexts must validate and rewrite to '0'^k ++ decimal(n) as one numeral; 'n zero' must give 'n 0' and fail validation; the lone zero word gives 0.",
         "Trusted: C01 speller; numbers that fail the C01 round-trip are skipped and counted (C01 owns them).",
         "5 C16"),
 "C02": (True, "differential runtime monitor: real rewrite vs harness-side splice of the reported occurrences on the crate's own tokens; token-identity conservation on streams",
         "Exploration: hostile texts (multi-byte salt, mutated vocabulary, punctuation/hyphen/apostrophe clusters, several numbers per text, some 60+ words) at thresholds 0,3,10,inf,NaN: tokenizer lossless, rewrite == splice(find_numbers on the same annotated tokens); number-free scripts returned identical; on hinted IdTok streams every input id is kept or handed exactly once, in order, to Replace::replace of the single covering occurrence.",
         "Trusted: hook H1 exports the crate's real tokenizer; the splice is 15 lines in the harness.",
         "5 C02"),
 "C03": (True, "crash/panic/hang observation of worker processes: catch_unwind + exit-status/signal + watchdog; debug-profile, AddressSanitizer and Miri legs",
         "Exploration: 0.9M (quick) / >10M (thorough) hostile, degenerate and large inputs x 8 thresholds (incl. NaN, +-inf) through all six entry points in child processes; panics are caught in the worker, aborts/signals/sanitizer reports are seen by the parent and triaged to a single-case witness, a call that does not return within 150 s is a violation of the restated bounded-progress property; thorough adds an ASan build and 16 Miri processes.",
         "Trusted: nightly sanitizer/Miri toolchains present in the image; a leg that cannot be built or is killed by the watchdog/OOM killer is inconclusive, never a violation. Unbounded termination is not decidable by observation: restated as bounded progress.",
         "5 C03"),
 "C06": (True, "invariant runtime monitor on every occurrence reported for grammar-noise token streams",
         "Exploration: hinted / mixed-case / whitespace-interleaved grammar-noise streams (mostly invalid number phrases) scanned at 9 thresholds; every reported occurrence is checked for span bounds and order, word-token boundaries, numeral grammar (digits, optional mark+digits, optional marker, es 1/n), value == reading of the text, ordinal flag <=> marker, no marker on decimals.",
         "Trusted: per-language marker alphabets taken from the property statement and library documentation.",
         "5 C06"),
 "C07": (True, "differential runtime monitor: scanner vs validator on the same words, both directions",
         "Exploration: (a) every non-decimal occurrence on grammar-noise streams is re-validated on exactly its own words; (b) every phrase the validator accepts (speller output, one-word mutations, random vocabulary sequences) must be scanned as exactly one occurrence with the same digits; (c) every uncovered unflagged word at threshold 0 must fail validation.",
         "Trusted: nothing beyond the public API; tokens flagged by hints count as set aside.",
         "5 C07"),
 "C09": (True, "trace-law monitor (subset/monotonicity laws over thresholds) + 15-line three-valued policy model",
         "Exploration: each grammar-noise stream (incl. digit tokens, and not-a-number / separation hints on a third of the model streams) is scanned at 9 base thresholds plus value and value+-0.5 of its numbers; universal laws (F(t) subset F(0) as exact tuples, monotone in t, t<=0/NaN rewrites everything, non-small numbers always reported) on all streams; on lower-case streams a policy model decides membership of each small number from the soft/hard/ambiguous class of the gaps to its neighbours (breakers = a word that is not linking, or a lone period, as the property's anchor states); ambiguous gaps (separator word, a flagged conjunction the language does not list as linking) are not judged and counted.",
         "Trusted: 'linking word' / 'separator word' are asked of the running library; the three-valued gap model of DESIGN.md C09.",
         "5 C09"),
 "C10": (True, "metamorphic runtime monitor: rewrite(A S B) vs rewrite(A) S rewrite(B); punctuation sweep",
         "Exploration: A, B from hostile text and annotator-state templates (French determiner..neuf, English o), S = 3..5 self-checked fillers ending a sentence, thresholds 0,5,10; plus spelled a, punctuation p (16 kinds), spelled b -> 'a p b'.",
         "Trusted: filler self-check; clause 2 conditioned on both numbers passing C01.",
         "5 C10"),
 "C11": (True, "metamorphic runtime monitor: two executions under a reversible recasing",
         "Exploration: texts rich in linking words between small numbers, hostile and annotator-state texts, and (a quarter of the cases) hinted caller-token streams; all-upper / capitalised / per-character random recasing restricted to characters whose case mapping round-trips; validation result, token count, occurrences tuple-for-tuple at thresholds 0,3,10,inf and the rewrite of the recased text vs the splice of its own tokens.",
         "Trusted: texts whose whole-string lowercase changes under recasing are outside the quantifier and skipped (counted).",
         "5 C11"),
 "C12": (True, "history + executable positional model of the digit builder; release and debug-profile legs; invariants at the apply() boundary",
         "Exploration: 1.5M (quick) / 60M (thorough) random operation histories over put/put_digit_at/shift/fput/push/freeze/reset with interpreter-like arguments; after each step rendering validity, len agreement, failure atomicity over all queries, frozen guard, digit conservation and equality with the model wherever documented; repeated in a debug-profile child (overflow checks, debug_assert); state invariants also checked on every builder state crossing LangInterpreter::apply in text workloads.",
         "Trusted: the 120-line model in harness/src/monitors/c12.rs; undocumented argument/state combinations end a history instead of being judged.",
         "5 C12"),
 "C13": (True, "differential runtime monitor: concrete interpreter type vs Language facade vs get_interpreter_for value",
         "Exploration: texts (validate, rewrite and find at 5 thresholds, annotation flags), hinted token streams (batch, lazy iterator with pull counts, stream rewrite, basic_annotate) and the eight trait methods on twin builders, for all 7 languages; the 7 ISO codes behave as their language on a corpus that separates all 7; obvious non-codes resolve to None.",
         "Trusted: tag-like strings such as EN / en-US / eng are not judged.",
         "5 C13"),
 "C14": (True, "history-independence and thread-sharing differential monitors; ThreadSanitizer, AddressSanitizer and Miri legs; Send+Sync build probe; fd-level silence observation",
         "Exploration: one long-lived interpreter set vs a second one (every call) and vs freshly built ones (sampled) over scripts aimed at carried state, incl. lazy searches dropped half-way; an order-independence pass replays the same calls in another order in another thread (per-thread or process-wide hidden state); 16 threads replay pre-computed scripts on never-used shared facade and concrete values (cold start) with overlap measured, plus a contention phase of short mixed calls on one shared interpreter per language; two Miri schedules (quick) / eight (thorough) for data races and UB; thorough repeats the thread workload under TSan (-Zbuild-std) and ASan; a build probe decides Send + Sync; a worker process with piped stdout/stderr applies every lexicon word in 7 digit states, converts the corpora and runs the hostile input mix: zero bytes expected.",
         "Trusted: harness-local force-Sync wrapper (so the experiment still builds if an interpreter gains interior mutability); sanitizer toolchains; a leg that cannot be built is inconclusive.",
         "5 C14"),
 "C15": (True, "trace monitor on the lazy iterator (wrapping counting iterator) + metamorphic hint/comma equivalence",
         "Exploration: hinted streams up to 40 words at thresholds 0,3,10,inf: iterator output == batch output then None repeatedly; 0 tokens pulled before the first request and never beyond the end of the second number after the returned one; no occurrence spans a separation-hinted token and its predecessor; hinted stream == same stream with a spoken comma inserted; no occurrence contains a not-a-number token.",
         "Trusted: hints are only placed on tokens the scanner does not skip.",
         "5 C15"),
 "C17": (True, "metamorphic runtime monitor: whitespace-run substitution",
         "Exploration: every maximal whitespace run replaced by a random run over 10 whitespace kinds (ASCII and Unicode), runs added at both ends; validation result, occurrences tuple-for-tuple with shifted spans at thresholds 0,3,10, rewrite vs splice of own tokens, rewrites equal modulo whitespace; English (own whitespace-sensitive pass) double share.",
         "Trusted: only char::is_whitespace characters are substituted.",
         "5 C17"),
 "C18": (True, "neighbour-rule differential monitor on the English annotator (o -> zero / filler substitution)",
         "Exploration: English texts over {o, O, number words, fillers, linking words, punctuation} with ASCII/Unicode whitespace; each o is classified by asking the running library whether its nearest non-whitespace neighbours are number words; the substituted text must give identical occurrences at thresholds 0,5,10; circular o-next-to-o cases skipped and counted.",
         "Trusted: 'number word' = accepted by LangInterpreter::apply on a fresh builder.",
         "5 C18"),
}
FUZZ_PROPS = {"C02","C03","C06","C07","C09","C10","C11","C13","C15","C17","C18"}
NOT_BUILT_REASON = "monitor designed in DESIGN.md section 5 but not built yet in this session; it will be claimed once its check exists"

def main():
    props = [json.loads(l)["id"] for l in open(os.path.join(HERE, "properties.jsonl"))]
    checks, na = [], []
    for p in props:
        c = CHECKS.get(p)
        if c and c[0]:
            checks.append({
                "property_id": p,
                "quick_cmd": f"./check {p} quick",
                "thorough_cmd": f"./check {p} thorough",
                "evidence_file": f"/verif/evidence/{p}.json",
                "replay_cmd_template": f"./check {p} --replay {{path}}",
                "engine": "t2n-verif",
                "level_claimed": {"category": "exploration", "text": c[2], "design_ref": "DESIGN.md section " + c[4]},
                "level_note": c[3] + (" Thorough tier adds a coverage-guided leg: libFuzzer (cargo-fuzz, ASan build) chooses language/threshold/text with a lexicon dictionary and every execution is judged by this monitor's own oracle functions." if p in FUZZ_PROPS else ""),
                "technique": c[1],
            })
        else:
            na.append({"property_id": p, "reason": (c[1] if c else NOT_BUILT_REASON)})
    m = {
        "version": 1,
        "setup_cmd": "./setup.sh",
        "hooks": {
            "guard": "cargo feature verif-hooks",
            "enable": "harness/Cargo.toml depends on text2num by path=/repo with features=[\"verif-hooks\"]; every ./check rebuilds it from /repo's working tree",
            "baseline_off_cmd": "cd /repo && cargo test --workspace --no-fail-fast --offline",
            "source_commits": hook_commits(),
            "add_only": True,
        },
        "engines": [{
            "name": "t2n-verif",
            "path": "/verif/harness",
            "serves_properties": [c["property_id"] for c in checks],
            "kind_free_text": "Rust harness: runtime monitors (reference-model, differential/metamorphic, invariant) observing the real public API of text2num under generated workloads; sanitizer/Miri legs for C03/C12/C14",
        }],
        "checks": checks,
        "not_applicable": na,
        "notes": "Technique family: runtime monitoring and sanitizers. Verdicts are three-valued (violated / held on what was observed / inconclusive); known findings are listed in /verif/known_findings.json.",
    }
    json.dump(m, open(os.path.join(HERE, "MANIFEST.json"), "w"), indent=1, ensure_ascii=False)
    print("MANIFEST.json written:", len(checks), "checks,", len(na), "not_applicable")

if __name__ == "__main__":
    main()
