#!/usr/bin/env python3
"""Generate /verif/MANIFEST.json from the table below (run: python3 tools/gen_manifest.py)."""
import json, os, subprocess

HERE = os.path.dirname(os.path.dirname(os.path.abspath(__file__)))

def hook_commits():
    try:
        out = subprocess.run(["git", "-C", "/repo", "log", "--format=%H %s"], capture_output=True, text=True).stdout
        return [l.split()[0] for l in out.splitlines() if "verif hook" in l]
    except Exception:
        return []

# property -> (built?, technique, level text, level note, design ref)
CHECKS = {
 "C01": (True, "reference-model runtime monitor (independent spellers) over compositional + random workloads",
         "Exploration: every n in 0..9999, every 3-digit group value in every group position, boundary shapes and digit-biased random n < 10^12 are spelled by independent per-language spellers (primary spelling + the variant table of DESIGN.md section 4, in six sentence contexts) and the real text2digits / replace_numbers_in_text / find_numbers results are compared with decimal(n). Held on the executions produced, not a proof over 10^12 integers.",
         "Trusted: the spellers in harness/src/spell (written from grammar rules, not from the library tables); filler words self-checked against the running library; known finding K1 (de 'eine Million') attributed only through the counterfactual token repair eine->ein.",
         "5 C01"),
 "C04": (True, "reference-model runtime monitor (independent ordinal spellers); thorough tier enumerates every rank of the stated range",
         "Exploration: every rank 1..10000 (quick) or every rank of the stated range 1..10^6, es/pt 1..1999 (thorough) in every gender/number inflection and hyphen/space or glued/split variant is spelled by independent ordinal spellers; validate, rewrite (six sentence contexts) and the reported occurrence (text, value, ordinal flag) are compared with decimal(n)+marker.",
         "Trusted: the ordinal conventions of DESIGN.md section 4 (systematic Italian -esimo forms, Spanish decimotercero.., no apocopated primer/tercer). Known findings K2 (es bare 'segundo(s)') and K3 (it bare 'secondi') are matched on the exact phrase only.",
         "5 C04"),
 "C05": (True, "reference-model runtime monitor (integer speller x fraction speller), conditioned on the integer part's own round-trip",
         "Exploration: integers from the compositional sampler below 10^9 x every 1- and 2-digit fraction string, every leading/inner/trailing-zero pattern of length 3..6 and random ones, in six sentence contexts; rewrite and the single occurrence (text n<mark>d, value, not ordinal) compared with the expected decimal; both negative clauses (separator with no number before it / nothing usable after it) checked.",
         "Trusted: fraction dictation conventions of DESIGN.md section 4; cases whose integer part fails C01 are skipped and counted.",
         "5 C05"),
 "C08": (True, "exhaustive pair sweep + dictation sweep observed through the real rewrite API, judged against a morpheme-sequence index built from the spellers",
         "Exploration, exhaustive over the stated pair domain: every (a,b) in [0,99]^2 x {space, conjunction} x 7 languages; allowed outcomes are both numbers in order, the zero-prefixed form, or the digits of the one number whose morpheme sequence equals morphemes(a)+morphemes(b). Dictation: every digit string up to length 4 (quick) / 6 (thorough) plus random ones up to length 8 against the grouping rule of the statement.",
         "Trusted: morpheme segmentation of the spellers; the conjunction is ignored when comparing morpheme sequences; texts flagged by the ambiguity annotator are skipped and counted.",
         "5 C08"),
 "C16": (True, "reference-model runtime monitor (zero words + speller), conditioned on C01 for the same n",
         "Exploration: k in 1..6 zero words before the spelling of n (compositional sampler within [1,10^9) plus random n) in six contexts must validate and rewrite to '0'^k ++ decimal(n) as one numeral; 'n zero' must give 'n 0' and fail validation; the lone zero word gives 0.",
         "Trusted: C01 speller; numbers that fail the C01 round-trip are skipped and counted (C01 owns them).",
         "5 C16"),
}
NOT_BUILT_REASON = "monitor designed in DESIGN.md section 5 but not built yet in this session; it will be claimed once its check exists"

def main():
    props = [json.loads(l)["id"] for l in open(os.path.join(HERE, "properties.jsonl"))]
    checks, na = [], []
    for p in props:
        c = CHECKS.get(p)
        if c and c[0]:
            checks.append({
                "property_id": p,
                "quick_cmd": f"./check {p} quick",
                "thorough_cmd": f"./check {p} thorough",
                "evidence_file": f"/verif/evidence/{p}.json",
                "replay_cmd_template": f"./check {p} --replay {{path}}",
                "engine": "t2n-verif",
                "level_claimed": {"category": "exploration", "text": c[2], "design_ref": "DESIGN.md section " + c[4]},
                "level_note": c[3],
                "technique": c[1],
            })
        else:
            na.append({"property_id": p, "reason": (c[1] if c else NOT_BUILT_REASON)})
    m = {
        "version": 1,
        "setup_cmd": "./setup.sh",
        "hooks": {
            "guard": "cargo feature verif-hooks",
            "enable": "harness/Cargo.toml depends on text2num by path=/repo with features=[\"verif-hooks\"]; every ./check rebuilds it from /repo's working tree",
            "baseline_off_cmd": "cd /repo && cargo test --workspace --no-fail-fast --offline",
            "source_commits": hook_commits(),
            "add_only": True,
        },
        "engines": [{
            "name": "t2n-verif",
            "path": "/verif/harness",
            "serves_properties": [c["property_id"] for c in checks],
            "kind_free_text": "Rust harness: runtime monitors (reference-model, differential/metamorphic, invariant) observing the real public API of text2num under generated workloads; sanitizer/Miri legs for C03/C12/C14",
        }],
        "checks": checks,
        "not_applicable": na,
        "notes": "Technique family: runtime monitoring and sanitizers. Verdicts are three-valued (violated / held on what was observed / inconclusive); known findings are listed in /verif/known_findings.json.",
    }
    json.dump(m, open(os.path.join(HERE, "MANIFEST.json"), "w"), indent=1, ensure_ascii=False)
    print("MANIFEST.json written:", len(checks), "checks,", len(na), "not_applicable")

if __name__ == "__main__":
    main()
