#!/bin/bash
# Cross matrix: every seeded change x every quick check.  Results: selftest/matrix.tsv (rows = change, columns = property; 1 = VIOLATION reported)
set -u
cd /verif
[ -n "$(git -C /repo status --porcelain --untracked-files=no)" ] && { echo "refusing: /repo has uncommitted changes"; exit 2; }
export VERIF_OUT_DIR=/tmp/verif-matrix-out
mkdir -p "$VERIF_OUT_DIR"
trap 'git -C /repo checkout -- . ; rm -rf /tmp/verif-matrix-out' EXIT
PROPS="C01 C02 C03 C04 C05 C06 C07 C08 C09 C10 C11 C12 C13 C14 C15 C16 C17 C18"
OUT=selftest/matrix.tsv
{ printf "change"; for p in $PROPS; do printf "\t%s" $p; done; printf "\n"; } > "$OUT.tmp"
for d in seeded/C*/; do
  id=$(basename "$d")
  git -C /repo apply "/verif/${d%/}/patch.diff" || continue
  printf "%s" "$id" >> "$OUT.tmp"
  for p in $PROPS; do
    ./check $p quick >/dev/null 2>&1; code=$?
    printf "\t%s" "$code" >> "$OUT.tmp"
  done
  printf "\n" >> "$OUT.tmp"
  git -C /repo checkout -- .
  tail -1 "$OUT.tmp"
done
mv "$OUT.tmp" "$OUT"
