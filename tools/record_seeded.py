#!/usr/bin/env python3
"""Record the outcome of tools/selftest.sh for the seeded changes: writes the `verif` block of every
seeded/<id>/meta.json and seeded/RESULTS.md from selftest/results.tsv and seeded/first_miss_notes.json.
Nothing here is read by a registered check."""
import json, os, re

V = '/verif'
ROUND = {1: 1, 2: 1, 3: 2, 4: 3, 5: 4, 6: 5, 7: 6, 8: 7, 9: 8, 10: 9, 11: 10, 12: 11, 13: 12}
res = {}
for l in open(f'{V}/selftest/results.tsv', errors='replace'):
    p = l.rstrip('\n').split('\t')
    if len(p) >= 3 and p[0].startswith('seeded-'):
        res[p[0][len('seeded-'):]] = (p[1], p[2] == 'exit=1', p[3] if len(p) > 3 else '')
notes = json.load(open(f'{V}/seeded/first_miss_notes.json'))
ids = sorted((d for d in os.listdir(f'{V}/seeded') if re.match(r'C\d\d-M\d+$', d)), key=lambda d: (d[:3], int(d.split('-M')[1])))
rows = []
for i in ids:
    mp = f'{V}/seeded/{i}/meta.json'
    m = json.load(open(mp))
    prop, det, wit = res.get(i, (i[:3], None, ''))
    rnd = ROUND[int(i.split('-M')[1])]
    m['verif'] = {
        'breaks_property': i[:3],
        'round': rnd,
        'confirmed_by': 'tools/confirm_mutant.sh in a scratch worktree: crate builds, 136 unit + 7 doc tests pass with the change, demo fails with it and passes without it',
        'checks_run': f'./check {prop} quick on /repo with the patch applied (tools/selftest.sh seeded), then git -C /repo checkout -- .',
        'detected': det,
        'first_witness': wit,
        'history': notes.get(i, 'caught by the version of the check that existed when the change was written'),
    }
    json.dump(m, open(mp, 'w'), indent=1, ensure_ascii=False)
    open(mp, 'a').write('\n')
    cell = lambda s: str(s).replace('|', '\\|').replace('\n', ' ')[:160]
    rows.append(f"| {i} | {cell(m.get('summary', ''))} | {cell(m.get('needs_to_manifest', ''))} | {prop} | {'yes' if det else ('NO' if det is False else '?')} | {str(notes.get(i, '')).replace('|', '/')} |")
n_det = sum(1 for i in ids if res.get(i, (0, None))[1])
hdr = f"""# Seeded changes and what catches them

Produced by independent sub-agents (each saw only the property record, a scratch worktree and, from round 2 on, the summaries of the earlier changes for the same property), confirmed with tools/confirm_mutant.sh, evaluated with tools/selftest.sh seeded (owning property, quick tier).  Round 1 = M1/M2, round 2 = M3, round 3 = M4, round 4 = M5, round 5 = M6, round 6 = M7, round 7 = M8, round 8 = M9, round 9 = M10, round 10 = M11, round 11 = M12, round 12 = M13.  Cross matrix of round 1 against all 18 checks: selftest/matrix.tsv.  Detected now: {n_det} of {len(ids)}; the note column says which ones the check missed as it stood when the change was written and what was changed.

| id | change (sub-agent summary) | needs | check | caught | note |
|---|---|---|---|---|---|
"""
open(f'{V}/seeded/RESULTS.md', 'w').write(hdr + '\n'.join(rows) + '\n')
n_missed = sum(1 for i in ids if str(notes.get(i, '')).startswith('missed'))
print(f'{n_det} of {len(ids)} detected; {n_missed} were missed at first')
