#!/bin/bash
# Self-test of the monitors (not a MANIFEST check): every repaired defect is re-introduced by reverting its "fix:"
# commit in /repo's working tree, the owning property's quick check must fire, and the tree is restored afterwards.
# Also runs every seeded change under /verif/seeded against the check of the property it breaks.
# usage: tools/selftest.sh [fixes|seeded|all]   (results: selftest/results.tsv)
set -u
cd /verif
MODE="${1:-all}"
OUT=selftest/results.tsv
mkdir -p selftest
[ -n "$(git -C /repo status --porcelain --untracked-files=no)" ] && { echo "refusing: /repo has uncommitted changes"; exit 2; }
export VERIF_OUT_DIR=/tmp/verif-selftest-out
mkdir -p "$VERIF_OUT_DIR"
trap 'git -C /repo checkout -- . ; rm -rf /tmp/verif-selftest-out' EXIT
: > "$OUT.tmp"
run_one() { # label prop
  local out code
  out=$(./check "$2" quick 2>&1); code=$?
  local first; first=$(echo "$out" | grep -m1 "detail:" | python3 -c "import sys; print(sys.stdin.read()[:200].replace(chr(9),chr(32)).strip())")
  printf "%s\t%s\texit=%s\t%s\n" "$1" "$2" "$code" "$first" | tee -a "$OUT.tmp"
}
if [ "$MODE" = fixes ] || [ "$MODE" = all ]; then
  python3 - <<'PY' > /tmp/selftest-fixes.txt
import json
for f in json.load(open('/verif/known_findings.json'))['findings']:
    if f['status']=='fixed': print(f['id'], f['property'], f['commit'])
PY
  while read -r id prop commit; do
    if [ -f "selftest/revert-$id.diff" ]; then
      git -C /repo apply "/verif/selftest/revert-$id.diff" || { echo "$id: cannot apply selftest/revert-$id.diff"; continue; }
    else
      git -C /repo show "$commit" -- src | git -C /repo apply -R || { echo "$id: cannot revert $commit"; continue; }
    fi
    run_one "revert-$id-$commit" "$prop"
    git -C /repo checkout -- .
  done < /tmp/selftest-fixes.txt
fi
if [ "$MODE" = seeded ] || [ "$MODE" = all ]; then
  for d in seeded/C*/; do
    id=$(basename "$d"); prop=${id%%-*}
    git -C /repo apply "/verif/${d%/}/patch.diff" || { echo "$id: patch does not apply"; continue; }
    run_one "seeded-$id" "$prop"
    git -C /repo checkout -- .
  done
fi
mv "$OUT.tmp" "$OUT"
echo "--- summary: $(grep -c 'exit=1' $OUT) detected of $(wc -l < $OUT)"
