#!/bin/bash
# Run registered checks against a seeded change: apply it to /repo, run ./check <prop> quick for each given
# property, undo it straight afterwards.  usage: tools/try_mutant.sh <patch.diff> <Cxx> [Cyy ...]
set -u
P="$(realpath "$1")"; shift
cd /verif
if [ -n "$(git -C /repo status --porcelain --untracked-files=no)" ]; then echo "refusing: /repo has uncommitted changes"; exit 2; fi
git -C /repo apply "$P" || { echo "patch does not apply"; exit 2; }
export VERIF_OUT_DIR="${VERIF_OUT_DIR:-/tmp/verif-mutant-out}"
mkdir -p "$VERIF_OUT_DIR"
trap 'git -C /repo checkout -- . ; rm -rf /tmp/verif-mutant-out' EXIT
for prop in "$@"; do
  tier="${TIER:-quick}"
  out=$(./check "$prop" "$tier" 2>&1); code=$?
  nviol=$(echo "$out" | grep -c '^VIOLATION')
  echo "== $prop $tier: exit=$code violations_lines=$nviol"
  echo "$out" | grep -A1 '^VIOLATION' | grep 'detail' | head -3 | cut -c1-400
  echo "$out" | grep -E '^(ERROR|INCONCLUSIVE)' | head -3 | cut -c1-300
done
